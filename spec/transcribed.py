"""Cited transcriptions of line instructions that the templates do not carry in
machine-readable form (C02).  Each entry: (form, line, years, fn, citation).
fn(c) returns the expected value or raises Skip; c is hv.monitors.c02.Ctx:
  c.v(line)        this form instance's line (Skip if not in the solution)
  c.x('form.line') a line of another (single-instance) form
  c.opt('form.line', default) same but default when the form/line is absent
  c.status, c.year, c.amount(name), c.tax(x), c.sum(base_form, line)
A transcribed rule is weaker evidence than a parsed one and is labelled so."""

from hv import statutory as _st
from hv.monitors.c02 import Skip

ALL = (2021, 2022, 2023)
Y22 = (2022, 2023)
W = '1040_qualdiv_capgain_tax_wkst'
A = '1040_s2_need_6251'
QD = 'Form 1040 instructions, line 16, Qualified Dividends and Capital Gain Tax Worksheet'
AMT = 'Schedule 2 instructions, line 1, Worksheet To See if You Should Fill in Form 6251'
I1040 = 'Form 1040 line instructions'
NC = 'NC D-400 form and instructions'

RULES = [
    # ---------------- Qualified Dividends and Capital Gain Tax Worksheet
    (W, '1', ALL, lambda c: c.x('1040.15'), QD), (W, '2', ALL, lambda c: c.x('1040.3a'), QD), (W, '3', ALL, lambda c: c.x('1040.7'), QD),
    (W, '4', ALL, lambda c: c.v('2') + c.v('3'), QD), (W, '5', ALL, lambda c: max(0.0, c.v('1') - c.v('4')), QD),
    (W, '7', ALL, lambda c: min(c.v('1'), c.v('6')), QD), (W, '8', ALL, lambda c: min(c.v('5'), c.v('7')), QD),
    (W, '9', ALL, lambda c: c.v('7') - c.v('8'), QD), (W, '10', ALL, lambda c: min(c.v('1'), c.v('4')), QD),
    (W, '11', ALL, lambda c: c.v('9'), QD), (W, '12', ALL, lambda c: c.v('10') - c.v('11'), QD),
    (W, '14', ALL, lambda c: min(c.v('1'), c.v('13')), QD), (W, '15', ALL, lambda c: c.v('5') + c.v('9'), QD),
    (W, '16', ALL, lambda c: max(0.0, c.v('14') - c.v('15')), QD), (W, '17', ALL, lambda c: min(c.v('12'), c.v('16')), QD),
    (W, '18', ALL, lambda c: c.v('17') * 0.15, QD), (W, '19', ALL, lambda c: c.v('9') + c.v('17'), QD),
    (W, '20', ALL, lambda c: c.v('10') - c.v('19'), QD), (W, '21', ALL, lambda c: c.v('20') * 0.20, QD),
    (W, '22', ALL, lambda c: c.tax(c.v('5')), QD), (W, '23', ALL, lambda c: c.v('18') + c.v('21') + c.v('22'), QD),
    (W, '24', ALL, lambda c: c.tax(c.v('1')), QD), (W, '25', ALL, lambda c: min(c.v('23'), c.v('24')), QD),
    # ---------------- Worksheet To See if You Should Fill in Form 6251
    (A, '3', ALL, lambda c: (c.v('1') + c.v('2')) if c.x('1040.itemizing') else (c.x('1040.11') - c.x('1040.13')), AMT),
    (A, '1', ALL, lambda c: c.x('1040.15'), AMT), (A, '2', ALL, lambda c: c.x('1040_sa.7'), AMT),
    (A, '5', ALL, lambda c: c.v('3') - c.v('4'), AMT), (A, '7', ALL, lambda c: c.v('5') - c.v('6'), AMT),
    (A, '9', ALL, lambda c: max(0.0, c.v('5') - c.v('8')), AMT), (A, '10', ALL, lambda c: min(c.v('6'), c.v('9') * 0.25), AMT),
    (A, '11', ALL, lambda c: c.v('7') + c.v('10'), AMT), (A, '12', ALL, lambda c: c.v('11') * 0.26, AMT),
    # ---------------- Form 1040 lines whose wording is "see instructions"
    ('1040', '1a', Y22, lambda c: c.sum('w-2', 'box_1'), I1040 + ' 1a'), ('1040', '1', (2021,), lambda c: c.sum('w-2', 'box_1'), I1040 + ' 1'),
    ('1040', '2a', ALL, lambda c: c.sum('1099-int', 'box_8'), I1040 + ' 2a'),
    ('1040', '2b', ALL, lambda c: c.sum('1099-int', 'box_1') + c.sum('1099-int', 'box_3'), I1040 + ' 2b'),
    ('1040', '3a', ALL, lambda c: c.sum('1099-div', 'box_1b'), I1040 + ' 3a'), ('1040', '3b', ALL, lambda c: c.sum('1099-div', 'box_1a'), I1040 + ' 3b'),
    ('1040', '7', ALL, lambda c: c.sum('1099-div', 'box_2a'), I1040 + ' 7 (no Schedule D)'),
    ('1040', '12', Y22, lambda c: c.x('1040_sa.17') if c.v('itemizing') else c.amount('standard_deduction'), I1040 + ' 12'),
    ('1040', '12a', (2021,), lambda c: c.x('1040_sa.17') if c.v('itemizing') else c.amount('standard_deduction'), I1040 + ' 12a'),
    ('1040', '12c', (2021,), lambda c: c.v('12a') + c.v('12b'), I1040 + ' 12c'),
    ('1040', '16', ALL, lambda c: c.x(W + '.25') if (c.v('3a') > 0.001 or c.v('7') > 0.001) else c.tax(c.v('15')), I1040 + ' 16'),
    ('1040', '25a', ALL, lambda c: c.sum('w-2', 'box_2'), I1040 + ' 25a'),
    ('1040', '25b', ALL, lambda c: c.sum('1099-r', 'box_4') + c.sum('1099-div', 'box_4') + c.sum('1099-int', 'box_4'), I1040 + ' 25b'),
    ('1040', '34', ALL, lambda c: max(0.0, c.v('33') - c.v('24')), I1040 + ' 34'),
    ('1040', '37', ALL, lambda c: max(0.0, c.v('24') - c.v('33')), I1040 + ' 37'),
    ('1040', '35a', ALL, lambda c: (c.v('34') - c.v('36')) if c.v('34') > 0.001 else 0.0, I1040 + ' 35a'),
    # ---------------- Schedule A
    ('1040_sa', '17', ALL, lambda c: c.v('4') + c.v('7') + c.v('10') + c.v('14') + c.v('15') + c.v('16'), 'Schedule A line 17: add the amounts in the far right column for lines 4 through 16'),
    ('1040_sa', '5a', ALL, lambda c: c.sum('w-2', 'box_17') + c.sum('w-2', 'box_19') + c.sum('1099-div', 'box_16_1') + c.sum('1099-div', 'box_16_2')
     + c.sum('1099-int', 'box_17_1') + c.sum('1099-int', 'box_17_2') + c.sum('1099-r', 'box_14_1') + c.sum('1099-r', 'box_14_2')
     + c.sum('1099-r', 'box_17_1') + c.sum('1099-r', 'box_17_2'), 'Schedule A instructions, line 5a: state and local income taxes withheld (W-2 boxes 17/19, 1099 state tax boxes)'),
    ('1040_sa', '8a', ALL, lambda c: c.sum('1098', 'box_1') + c.sum('1098', 'box_6'), 'Schedule A instructions, line 8a: Form 1098 boxes 1 and 6'),
    # ---------------- Schedule 8812 credit limit worksheet A
    ('1040_s8812', 'clwkst_a_1', ALL, lambda c: c.x('1040.18'), 'Schedule 8812 instructions, Credit Limit Worksheet A'),
    ('1040_s8812', 'clwkst_a_3', ALL, lambda c: c.v('clwkst_a_1') - c.v('clwkst_a_2'), 'Credit Limit Worksheet A line 3'),
    ('1040_s8812', 'clwkst_a_5', ALL, lambda c: c.v('clwkst_a_3') - c.v('clwkst_a_4'), 'Credit Limit Worksheet A line 5'),
    ('1040_s8812', '13', Y22, lambda c: c.v('clwkst_a_5'), 'Schedule 8812 line 13'),
    ('1040_s8812', '12', Y22, lambda c: (c.v('8') - c.v('11')) if c.v('8') > c.v('11') else 0.0, 'Schedule 8812 line 12'),
    ('1040_s8812', '16b', Y22, lambda c: c.v('4') * c.amount('actc_cap_per_child'), 'Schedule 8812 line 16b'),
    # ---------------- Forms 8959 / 8995 inputs from other forms
    ('8959', '1', ALL, lambda c: c.sum('w-2', 'box_5'), 'Form 8959 line 1'), ('8959', '19', ALL, lambda c: c.sum('w-2', 'box_6'), 'Form 8959 line 19'),
    ('8995', '6', ALL, lambda c: c.sum('1099-div', 'box_5'), 'Form 8995 line 6'),
    ('8995', '11', Y22, lambda c: c.x('1040.11') - c.x('1040.12'), 'Form 8995 line 11'), ('8995', '11', (2021,), lambda c: c.x('1040.11') - c.x('1040.12c'), 'Form 8995 line 11'),
    ('8995', '12', ALL, lambda c: c.x('1040.3a') + c.x('1040.7'), 'Form 8995 line 12'),
    # ---------------- NC D-400
    ('nc_d-400', '6', ALL, lambda c: c.x('1040.11'), NC + ' line 6'),
    ('nc_d-400', '7', (2021,), lambda c: c.x('nc_d-400_ss.15') if c.has('nc_d-400_ss.15') else 0.0, NC + ' line 7 = Schedule S total additions (2021: line 15)'),
    ('nc_d-400', '7', Y22, lambda c: c.x('nc_d-400_ss.16') if c.has('nc_d-400_ss.16') or c.has('nc_d-400_ss.15') else 0.0, NC + ' line 7 = Schedule S total additions (2022+: line 16)'),
    ('nc_d-400', '8', ALL, lambda c: c.v('6') + c.v('7'), NC + ' line 8'),
    ('nc_d-400', '12a', ALL, lambda c: c.v('9') + c.v('10b') + c.v('11'), NC + ' line 12a'),
    ('nc_d-400', '12b', ALL, lambda c: c.v('8') - c.v('12a'), NC + ' line 12b'),
    ('nc_d-400', '14', ALL, lambda c: c.v('12b'), NC + ' line 14 (full-year resident)'),
    ('nc_d-400', '15', ALL, lambda c: max(0.0, c.v('14') * float(c.amount('nc_rate'))), NC + ' line 15'),
    ('nc_d-400', '17', ALL, lambda c: c.v('15') - c.v('16'), NC + ' line 17'),
    ('nc_d-400', '19', ALL, lambda c: c.v('17') + c.v('18'), NC + ' line 19'),
    ('nc_d-400', '23', ALL, lambda c: c.v('20a') + c.v('20b') + c.v('21a') + c.v('21b') + c.v('21c') + c.v('21d') + c.v('22'), NC + ' line 23'),
    ('nc_d-400', '25', ALL, lambda c: c.v('23') - c.v('24'), NC + ' line 25'),
    ('nc_d-400', '26a', ALL, lambda c: c.v('19') - c.v('25'), NC + ' line 26a'),
    ('nc_d-400', '27', ALL, lambda c: c.v('26a') + c.v('26d') + c.v('26e'), NC + ' line 27'),
    ('nc_d-400', '28', ALL, lambda c: c.v('25') - c.v('19'), NC + ' line 28'),
    ('nc_d-400', '33', ALL, lambda c: c.v('29') + c.v('30') + c.v('31') + c.v('32'), NC + ' line 33'),
    ('nc_d-400', '34', ALL, lambda c: c.v('28') - c.v('33'), NC + ' line 34'),
    ('nc_d-400', '10b', ALL, lambda c: c.x('nc_d-400_child_deduction_wkst.5') if c.v('10a') > 0 else 0.0, NC + ' line 10b'),
    ('nc_d-400_sa', '1', ALL, lambda c: c.sum('1098', 'box_1') + c.sum('1098', 'box_6'), NC + ' Schedule A line 1'),
    ('nc_d-400_sa', '3', ALL, lambda c: c.v('1') + c.v('2'), NC + ' Schedule A line 3'),
    ('nc_d-400_sa', '5', ALL, lambda c: min(c.v('3'), 20000.0), NC + ' Schedule A line 5'),
    ('nc_d-400_sa', '7b', ALL, lambda c: c.x('nc_d-400.6'), NC + ' Schedule A line 7b'),
    ('nc_d-400_sa', '7c', ALL, lambda c: max(0.0, c.v('7b') * 0.075), NC + ' Schedule A line 7c (a negative AGI gives no floor)'),
    ('nc_d-400_sa', '7d', ALL, lambda c: max(0.0, c.v('7a') - c.v('7c')), NC + ' Schedule A line 7d'),
    ('nc_d-400_sa', '10', ALL, lambda c: c.v('5') + c.v('6') + c.v('7d') + c.v('8') + c.v('9'), NC + ' Schedule A line 10'),
    ('nc_d-400_child_deduction_wkst', '2', ALL, lambda c: c.x('nc_d-400.6'), NC + ' child deduction worksheet line 2'),
    ('nc_d-400_child_deduction_wkst', '5', ALL, lambda c: c.v('3') * c.v('4'), NC + ' child deduction worksheet line 5'),
    ('nc_d-400_child_deduction_wkst', '4', ALL, lambda c: float(_st.nc_child_deduction(c.year, c.status, c.x('nc_d-400.6'))),
     NC + ' child deduction worksheet line 4: the table amount for the (whole-dollar) federal AGI carried to line 2 from D-400 line 6'),
    ('nc_d-400_consumer_use_tax_wkst', '4', (2021, 2023), lambda c: c.v('2') - c.v('3'), NC + ' consumer use tax worksheet line 4'),
    ('nc_d-400_consumer_use_tax_wkst', '6', (2022,), lambda c: c.v('2') + c.v('4') - c.v('5'), NC + ' 2022 consumer use tax worksheet line 6 (use tax of both periods less the credit)'),
    ('8606', '17', ALL, lambda c: c.v('11'), 'Form 8606 line 17: if you completed Part I, enter the amount from line 11'),
    ('nc_d-400_ss', '15', (2021,), lambda c: sum(c.v(str(k)) for k in range(1, 15)), NC + ' Schedule S total additions'),
    ('nc_d-400_ss', '16', Y22, lambda c: sum(c.v(str(k)) for k in range(1, 16)), NC + ' Schedule S total additions'),
]

R = '1040_recovery_rebate_credit_wkst'
RRC = '2021 Form 1040 instructions, line 30, Recovery Rebate Credit Worksheet'
W5 = '2021 Schedule 8812 instructions, Line 5 Worksheet'
S21 = '2021 Schedule 8812'
import math as _m


def _ws7(c):
    # a definition that never reads line 7 leaves it out of the return: line 7 is then taken from its own instruction
    # (the smaller of line 5 or the published amount of line 6) instead of skipping the rule for line 11
    try:
        return c.v('5_ws_7')
    except Skip:
        return min(c.v('5_ws_5'), float(c.amount('ctc_2021_line5wkst_line6')))


RULES += [
    # ---------------- more Form 1040 carries
    ('1040', '13', ALL, lambda c: c.x('8995.15'), I1040 + ' 13 = Form 8995 line 15'),
    ('1040', '28', Y22, lambda c: c.x('1040_s8812.27'), I1040 + ' 28 = Schedule 8812 line 27'),
    ('1040', '19', (2021,), lambda c: c.x('1040_s8812.nonrefundable_ctc_or_odc'), I1040 + ' 19 (2021: Schedule 8812 line 14h)'),
    ('1040', '28', (2021,), lambda c: c.x('1040_s8812.refundable_ctc_or_additional_ctc'), I1040 + ' 28 (2021: Schedule 8812 line 14i)'),
    ('1040', '30', (2021,), lambda c: c.x(R + '.credit'), I1040 + ' 30 (2021 recovery rebate credit)'),
    ('1040', '36', ALL, lambda c: min(c.v('34'), c.v('36')) if c.v('34') > 0.001 else 0.0, I1040 + ' 36: not more than line 34'),
    ('1040_s1', '13', ALL, lambda c: c.sum('8889', 'hsa_deduction'), 'Schedule 1 line 13 = Form(s) 8889 line 13'),
    ('1040_s1', '18', ALL, lambda c: c.sum('1099-int', 'box_2'), 'Schedule 1 line 18: early withdrawal penalty, Form 1099-INT box 2'),
    ('8889', 'hsa_deduction', ALL, lambda c: c.v('13'), 'Form 8889 line 13'),
    # ---------------- 2021 recovery rebate credit worksheet
    (R, '8', (2021,), lambda c: c.v('6') + c.v('7'), RRC), (R, '9', (2021,), lambda c: c.x('1040.11'), RRC),
    (R, '10', (2021,), lambda c: c.amount('rrc_phaseout_end') - c.v('9'), RRC),
    (R, '11', (2021,), lambda c: c.v('10') / c.amount('rrc_denominator'), RRC),
    (R, '12', (2021,), lambda c: (c.v('8') * c.v('11')) if c.v('9') > c.amount('rrc_phaseout_start') else c.v('8'), RRC),
    (R, '14', (2021,), lambda c: max(0.0, c.v('12') - c.v('13')), RRC),
    # ---------------- 2021 Schedule 8812 and its line 5 worksheet
    ('1040_s8812', '4c', (2021,), lambda c: c.v('4a') - c.v('4b'), S21 + ' line 4c'),
    ('1040_s8812', '5_ws_1', (2021,), lambda c: c.v('4b') * 3600.0, W5), ('1040_s8812', '5_ws_2', (2021,), lambda c: c.v('4c') * 3000.0, W5),
    ('1040_s8812', '5_ws_3', (2021,), lambda c: c.v('5_ws_1') + c.v('5_ws_2'), W5), ('1040_s8812', '5_ws_4', (2021,), lambda c: c.v('4a') * 2000.0, W5),
    ('1040_s8812', '5_ws_5', (2021,), lambda c: c.v('5_ws_3') - c.v('5_ws_4'), W5), ('1040_s8812', '5_ws_7', (2021,), lambda c: min(c.v('5_ws_5'), c.v('5_ws_6')), W5),
    ('1040_s8812', '5_ws_9', (2021,), lambda c: (_m.ceil(round(c.x('1040_s8812.3') - c.v('5_ws_8'), 6) / 1000.0) * 1000.0) if c.x('1040_s8812.3') - c.v('5_ws_8') > 0.001 else 0.0, W5),
    ('1040_s8812', '5_ws_10', (2021,), lambda c: c.v('5_ws_9') * 0.05, W5), ('1040_s8812', '5_ws_11', (2021,), lambda c: min(_ws7(c), c.v('5_ws_10')), W5),
    ('1040_s8812', '5_ws_12', (2021,), lambda c: c.v('5_ws_3') - c.v('5_ws_11'), W5),
    ('1040_s8812', '5', (2021,), lambda c: c.v('5_ws_12') if c.v('4a') > 0 else 0.0, S21 + ' line 5'),
    ('1040_s8812', '14a', (2021,), lambda c: min(c.v('7'), c.v('12')), S21 + ' line 14a'), ('1040_s8812', '14b', (2021,), lambda c: c.v('12') - c.v('14a'), S21 + ' line 14b'),
    ('1040_s8812', '14d', (2021,), lambda c: min(c.v('14a'), c.v('14c')), S21 + ' line 14d'), ('1040_s8812', '14e', (2021,), lambda c: c.v('14b') + c.v('14d'), S21 + ' line 14e'),
    ('1040_s8812', '14g', (2021,), lambda c: max(0.0, c.v('14e') - c.v('14f')), S21 + ' line 14g'),
    ('1040_s8812', '14h', (2021,), lambda c: min(c.v('14d'), c.v('14g')) if c.v('14g') > 0.001 else 0.0, S21 + ' line 14h'),
    ('1040_s8812', '14i', (2021,), lambda c: (c.v('14g') - c.v('14h')) if c.v('14g') > 0.001 else 0.0, S21 + ' line 14i'),
    # ---------------- NC
    ('nc_d-400', '9', (2021,), lambda c: c.x('nc_d-400_ss.38'), NC + ' line 9 = Schedule S total deductions (2021: line 38)'),
    ('nc_d-400', '9', Y22, lambda c: c.x('nc_d-400_ss.41'), NC + ' line 9 = Schedule S total deductions (2022+: line 41)'),
    ('nc_d-400', '11', ALL, lambda c: c.x('nc_d-400_sa.deduction') if c.v('11_itemizing') else c.x('nc_d-400_sa.nc_standard_deduction'), NC + ' line 11'),
    ('nc_d-400_sa', 'deduction', ALL, lambda c: max(c.v('nc_standard_deduction'), c.v('10')), NC + ' Schedule A: larger of standard and itemized'),
    ('nc_d-400_ss', '41', Y22, lambda c: sum(c.v(str(k)) for k in range(17, 23)) + c.v('23f') + c.v('24f') + sum(c.v(str(k)) for k in range(25, 41)), NC + ' Schedule S total deductions'),
    ('nc_d-400_ss', '38', (2021,), lambda c: sum(c.v(str(k)) for k in range(16, 22)) + c.v('22f') + c.v('23f') + sum(c.v(str(k)) for k in range(24, 38)), NC + ' Schedule S total deductions'),
    ('nc_d-400_ss', '23f', Y22, lambda c: sum(c.v('23' + x) for x in 'abcde'), NC + ' Schedule S line 23f'),
    ('nc_d-400_ss', '24f', Y22, lambda c: sum(c.v('24' + x) for x in 'abcde'), NC + ' Schedule S line 24f'),
    ('nc_d-400_ss', '22f', (2021,), lambda c: sum(c.v('22' + x) for x in 'abcde'), NC + ' Schedule S line 22f'),
    ('nc_d-400_ss', '23f', (2021,), lambda c: sum(c.v('23' + x) for x in 'abcde'), NC + ' Schedule S line 23f'),
]


def _nc_withheld(c, owners):
    """NC income tax withheld shown on the statements of the given owners (D-400 lines 20a / 20b)."""
    tot = 0.0
    def owner(sec):
        o = c.sol.get(f'{sec}.belongs_to')
        return getattr(o, 'name', None)
    def state(sec, key):
        o = c.sol.get(f'{sec}.{key}')
        return getattr(o, 'name', None)
    c.cross = True
    for sec in c.ev.instances('w-2'):
        if owner(sec) in owners and state(sec, 'box_15') == 'NC':
            tot += c.sol.get(f'{sec}.box_17', 0.0)
    for base, pairs in (('1099-g', (('box_10a_1', 'box_11_1'), ('box_10a_2', 'box_11_2'))), ('1099-int', (('box_15_1', 'box_17_1'), ('box_15_2', 'box_17_2'))),
                        ('1099-div', (('box_14_1', 'box_16_1'), ('box_14_2', 'box_16_2'))), ('1099-r', (('box_14_1_state', 'box_14_1'), ('box_14_2_state', 'box_14_2')))):
        for sec in c.ev.instances(base):
            if owner(sec) in owners:
                for skey, akey in pairs:
                    if state(sec, skey) == 'NC':
                        tot += c.sol.get(f'{sec}.{akey}', 0.0)
    return tot


RULES += [
    ('nc_d-400', '20a', ALL, lambda c: _nc_withheld(c, ('taxpayer', 'both')), NC + ' line 20a: your NC tax withheld (W-2 box 17 for NC, 1099 state tax boxes for NC)'),
    ('nc_d-400', '20b', ALL, lambda c: _nc_withheld(c, ('spouse',)), NC + " line 20b: spouse's NC tax withheld"),
    ('1040_s8812', 'clwkst_a_2', Y22, lambda c: (sum(c.opt('1040_s3.' + l, 0.0) for l in ('1', '2', '3', '4', '6d', '6e', '6f', '6l')) if c.x('1040.need_schedule_3_part_i') else 0.0),
     'Schedule 8812 instructions, Credit Limit Worksheet A line 2: Schedule 3 lines 1, 2, 3, 4, 6d, 6e, 6f, 6l'),
]


# ---------------- added after round 4: per-payer listing lines, pensions, carries between worksheets
def _pension(c, box):
    c.cross = True
    tot = 0.0
    for sec in c.ev.instances('1099-r'):
        if c.sol.get(f'{sec}.box_7_ira_sep_simple') is False:
            if f'{sec}.{box}' not in c.sol:
                raise Skip(f'{sec}.{box}')
            tot += c.sol[f'{sec}.{box}']
    return tot


def _count(c, suffix):
    c.cross = True
    n = 0
    seen = False
    for k in range(4):
        key = f'1040.dependent_{k}_{suffix}'
        if key in c.sol:
            seen = True
            n += 1 if c.sol[key] is True else 0
    if not seen:
        raise Skip('1040.dependent_*')
    return n


SBL = 'Schedule B lines 1 and 5: list each payer and the amount shown on that payer\'s Form 1099-INT (boxes 1 and 3) / 1099-DIV (box 1a)'
for _k in range(14):
    RULES.append(('1040_sb', f'1_amount_{_k}', ALL, (lambda c, k=_k: c.x(f'1099-int:{k}.box_1') + c.x(f'1099-int:{k}.box_3')), SBL))
    RULES.append(('1040_sb', f'5_amount_{_k}', ALL, (lambda c, k=_k: c.x(f'1099-div:{k}.box_1a')), SBL))
RULES += [
    ('1040', '5b', Y22, lambda c: _pension(c, 'box_2a'), I1040 + ' 5b: taxable amount of pensions and annuities (Form 1099-R box 2a of the statements that are not IRA distributions)'),
    ('1040', '19', Y22, lambda c: c.x('1040_s8812.14'), I1040 + ' 19: child tax credit or credit for other dependents from Schedule 8812 (line 14)'),
    ('1040_s8812', '6', Y22, lambda c: _count(c, 'odc'), 'Schedule 8812 line 6: number of other dependents (the box in column (4) of the Dependents section)'),
    ('nc_d-400', '10a', ALL, lambda c: c.x('nc_d-400_child_deduction_wkst.3'), NC + ' line 10a: number of qualifying children from the child deduction worksheet'),
    ('nc_d-400', '18', ALL, lambda c: c.x('nc_d-400_consumer_use_tax_wkst.consumer_use_tax'), NC + ' line 18: consumer use tax from the worksheet'),
    ('nc_d-400_consumer_use_tax_wkst', 'estimate', (2021, 2023), lambda c: _st.nc_use_tax_estimate(c.x('nc_d-400.14')),
     NC + ' use tax table: taxable income (line 14) "at least" the lower limit "but less than" the upper one; 0.0675 % from 45,200'),
    ('nc_d-400_child_deduction_wkst', '3', ALL, lambda c: _count(c, 'ctc'), NC + ' child deduction worksheet line 3: number of children for whom the federal child tax credit is allowed'),
]


# Lines the instructions REQUIRE to be completed in a situation: (form, line, years, condition(c), citation).
# Judged on the return as solved (first pass): when the form is in the solution and the condition holds,
# the line must be there (a part of the form the filer must fill in may not be silently left out).
def _sb_part3(c):
    return c.sol.get(f'{c.full}.4', 0.0) > 1500.0 or c.sol.get(f'{c.full}.6', 0.0) > 1500.0


SB3 = 'Schedule B, Part III: "You must complete this part if you (a) had over $1,500 of taxable interest or ordinary dividends; ..."'
REQUIRED = [
    ('1040', W + '.25', ALL, lambda c: c.v('3a') > 0.001 or c.v('7') > 0.001,
     I1040 + ' 16: with qualified dividends (line 3a) or capital gain distributions (line 7) the tax is figured on the Qualified Dividends and Capital Gain Tax Worksheet'),
    ('1040_sb', '7a', ALL, _sb_part3, SB3), ('1040_sb', '7b', ALL, _sb_part3, SB3), ('1040_sb', '8', ALL, _sb_part3, SB3),
    ('8606', '15b', ALL, lambda c: c.has(f'{c.full}.15a'), 'Form 8606 Part I: line 15b is completed whenever line 15a is (line 15c = 15a - 15b)'),
    ('8606', '15c', ALL, lambda c: c.has(f'{c.full}.15a'), 'Form 8606 Part I: line 15c is completed whenever line 15a is'),
]
