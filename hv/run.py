"""E9 - runner: shards in watchdogged subprocesses, three-valued verdict,
known findings, evidence and replay files."""
import concurrent.futures
import fnmatch
import importlib
import json
import os
import subprocess
import sys
import tempfile
import time
import traceback

from hv.common import VERIF_DIR, REPO, Result

PY = sys.executable
KNOWN_FILE = os.path.join(VERIF_DIR, 'known_findings.json')


def load_monitor(pid):
    return importlib.import_module(f'hv.monitors.{pid.lower()}')


def ensure_deps():
    deps = os.path.join(VERIF_DIR, '.deps')
    if os.path.isdir(os.path.join(deps, 'icontract')):
        return
    cmd = ['/venv/bin/pip', 'install', '--quiet', '--no-index', '--find-links',
           '/opt/veriftools/wheels', '--target', deps, 'icontract']
    env = dict(os.environ, PIP_NO_INDEX='1', PIP_DISABLE_PIP_VERSION_CHECK='1')
    subprocess.run(cmd, env=env, stdout=subprocess.DEVNULL, stderr=subprocess.DEVNULL, timeout=300)


def worker_main(pid, tier, seed, shard_file, out_file):
    """Runs inside the shard subprocess."""
    mon = load_monitor(pid)
    with open(shard_file) as f:
        spec = json.load(f)
    try:
        res = mon.run_shard(spec, tier, seed)
    except BaseException as e:  # harness failure: inconclusive, never a verdict
        decided = [r for r in Result.LIVE if r.violations]
        res = Result()
        res.inconclusive.append(f'shard {spec} crashed in harness: {type(e).__name__}: {e}\n' + traceback.format_exc()[-1500:])
        for r in decided[:1]:           # what the oracle had already decided before the harness failed is not lost
            res.violations = list(r.violations)
    with open(out_file, 'w') as f:
        json.dump(res.to_json(), f, default=str)


def _run_one(pid, tier, seed, spec, workdir, idx, timeout):
    shard_file = os.path.join(workdir, f'shard{idx}.json')
    out_file = os.path.join(workdir, f'out{idx}.json')
    with open(shard_file, 'w') as f:
        json.dump(spec, f)
    env = dict(os.environ)
    env['PYTHONHASHSEED'] = str(spec.get('hashseed', os.environ.get('PYTHONHASHSEED', '0'))) if isinstance(spec, dict) else '0'
    env['PYTHONDONTWRITEBYTECODE'] = '1'
    env['VERIF_REPO'] = REPO
    cmd = [PY, os.path.join(VERIF_DIR, 'check'), '--worker', pid, '--tier', tier,
           '--seed', str(seed), '--shard-file', shard_file, '--out', out_file]
    t0 = time.time()
    try:
        p = subprocess.run(cmd, env=env, cwd=VERIF_DIR, timeout=timeout,
                           stdout=subprocess.PIPE, stderr=subprocess.PIPE, text=True)
    except subprocess.TimeoutExpired:
        r = Result()
        r.inconclusive.append(f'shard {idx} {spec} hit the wall-clock watchdog ({timeout}s)')
        return r
    if not os.path.exists(out_file):
        r = Result()
        r.inconclusive.append(f'shard {idx} {spec} died (exit {p.returncode}) without a result: {p.stderr[-800:]}')
        return r
    with open(out_file) as f:
        r = Result.from_json(json.load(f))
    r.count('shards_completed')
    r.extra.setdefault('shard_wall_s', []).append(round(time.time() - t0, 1))
    return r


def load_known():
    if not os.path.exists(KNOWN_FILE):
        return []
    with open(KNOWN_FILE) as f:
        return json.load(f)['findings']


def classify(pid, violations):
    """Split violations into (known, new) using the committed known-findings
    file.  Only entries with status 'known' suppress; 'fixed' entries never do."""
    known = [k for k in load_known() if k['property'] == pid and k['status'] == 'known']
    kn, new = {}, {}
    for v in violations:
        hit = None
        for k in known:
            if fnmatch.fnmatchcase(v['key'], k['key']):
                hit = k
                break
        if hit is not None:
            kn.setdefault(hit['key'], (hit, []))[1].append(v)
        else:
            new.setdefault(v['key'], []).append(v)
    return kn, new


def main_check(pid, tier, seed, replay=None, jobs=None):
    ensure_deps()
    t0 = time.time()
    mon = load_monitor(pid)
    jobs = jobs or int(os.environ.get('VERIF_JOBS', '16'))
    if replay:
        with open(replay) as f:
            rp = json.load(f)
        specs = [rp['shard']] if 'shard' in rp else mon.plan(tier, seed)
        tier, seed = rp.get('tier', tier), rp.get('seed', seed)
    else:
        specs = mon.plan(tier, seed)
    default_to = 900 if tier == 'quick' else 7200
    total = Result()
    with tempfile.TemporaryDirectory(prefix=f'hv_{pid}_') as workdir:
        with concurrent.futures.ThreadPoolExecutor(max_workers=jobs) as ex:
            futs = [ex.submit(_run_one, pid, tier, seed, spec, workdir, i, spec.get('timeout', default_to))
                    for i, spec in enumerate(specs)]
            for fu in futs:
                total.merge(fu.result())
    extras = {}
    try:
        extras = mon.finalize(total, tier) or {}
    except Exception as e:
        total.inconclusive.append(f'finalize failed: {type(e).__name__}: {e}')
    known, new = classify(pid, total.violations)
    wall = time.time() - t0

    # ---- evidence
    evdir = os.environ.get('VERIF_EVIDENCE_DIR') or os.path.join(VERIF_DIR, 'evidence')
    rpdir = os.environ.get('VERIF_REPLAY_DIR') or os.path.join(VERIF_DIR, 'replays')
    os.makedirs(evdir, exist_ok=True)
    cov = {
        'evaluations': total.evaluations,
        'distinct_nontrivial': len(total.distinct),
        'rule': mon.RULE,
        'samples': total.samples or ['(no sample recorded)'],
        'events_by_kind': {k: v for k, v in sorted(total.counters.items())},
        'shards': len(specs),
    }
    for k, v in sorted(total.sets.items()):
        cov['n_' + k] = len(v)
        if len(v) <= 400:
            cov[k] = sorted(v)
    cov.update(extras)
    verdict = 'held'
    if new:
        verdict = 'violated'
    elif total.inconclusive:
        verdict = 'inconclusive'
    cov['verdict'] = verdict
    cov['known_findings_observed'] = sorted(known)
    cov['inconclusive_reasons'] = total.inconclusive[:20]
    ev = {
        'property_id': pid, 'tier': tier, 'seed': seed, 'level': mon.LEVEL,
        'coverage': cov, 'assumptions': list(mon.ASSUMPTIONS), 'wall_s': round(wall, 2),
        'violations': len(new),
    }
    with open(os.path.join(evdir, f'{pid}.json'), 'w') as f:
        json.dump(ev, f, indent=1, default=str)

    # ---- report
    print(f'[{pid}] tier={tier} seed={seed} evaluations={total.evaluations} distinct={len(total.distinct)} '
          f'shards={len(specs)} wall={wall:.1f}s')
    for k in sorted(total.counters):
        print(f'  {k} = {total.counters[k]}')
    for k in sorted(extras):
        v = extras[k]
        if isinstance(v, (int, float, str, bool)):
            print(f'  {k}: {v}')
    for key, (entry, vs) in sorted(known.items()):
        print(f'KNOWN-FINDING: property={pid} {entry["what"]} [key={key}, seen {len(vs)}x]')
    if new:
        os.makedirs(rpdir, exist_ok=True)
        for n, (key, vs) in enumerate(sorted(new.items())):
            path = os.path.join(rpdir, f'{pid}-{tier}-{seed}-{n}.json')
            with open(path, 'w') as f:
                json.dump({'property': pid, 'tier': tier, 'seed': seed, 'key': key,
                           'what': vs[0]['what'], 'cases': [v['replay'] for v in vs],
                           'shard': (vs[0]['replay'] or {}).get('shard') if isinstance(vs[0]['replay'], dict) else None},
                          f, indent=1, default=str)
            print(f'  violation key={key}: {vs[0]["what"]}')
            print(f'VIOLATION property={pid} replay={path}')
        return 1
    if total.inconclusive:
        for r in total.inconclusive[:10]:
            print(f'INCONCLUSIVE property={pid} {r[:600]}')
        return 2
    print(f'HELD property={pid} on everything explored')
    return 0
