"""E2 - real-form scenario generator.

A scenario is a seeded *persona* that answers whatever the solver asks
(demand-driven), so the generator never needs to know in advance which inputs a
year's forms read.  Answers are texts, exactly as a user would type them or
write them in the INI file.  `solve_persona` returns a drive.Outcome plus the
full answer map, which can then be replayed from a file, from the prompt, or
split between the two.
"""
import random
import re

from hv import hx, drive, trace
from hv import statutory as st
from hv import statutory as _stat
from hv.common import rng_for, h

I = hx.inputs

FIRST = ['Ada', 'Grace', 'Alan', 'Edsger', 'Barbara', 'Tony', 'Leslie', 'Donald']
LAST = ['Lovelace', 'Hopper', 'Turing', 'Dijkstra', 'Liskov', 'Hoare', 'Lamport', 'Knuth']
STATUS_MEMBERS = {
    2021: {'S': 'Single', 'MFJ': 'MarriedFilingJointly', 'MFS': 'MarriedFilingSeparately', 'HOH': 'HeadOfHousehold', 'QSS': 'QualifyingWidowWidower'},
}
for _y in (2022, 2023):
    STATUS_MEMBERS[_y] = dict(STATUS_MEMBERS[2021], QSS='QualifyingSurvivingSpouse')

FAMILIES = ['F0', 'F1', 'F2', 'F3', 'F4', 'F5', 'F6', 'F7', 'F8', 'F9', 'F10', 'F11']


def money(x):
    return f'{x:.2f}'


class Persona(object):
    """Deterministic from (seed, year, family, k)."""

    def __init__(self, year, family, key, status=None, overrides=None, wages=None):
        self.year = year
        self.family = family
        self.key = key
        r = self.rng = rng_for('persona', year, family, key)
        self.overrides = dict(overrides or {})
        F = family
        self.status = status or r.choice(['S', 'S', 'MFJ', 'MFJ', 'MFS', 'HOH', 'QSS'])
        joint = self.status == 'MFJ'
        self.joint = joint
        # dependants
        if F == 'F1' or (F in ('F8', 'F11') and r.random() < 0.6):
            self.ndep = r.randint(1, 4)
        elif self.status in ('HOH', 'QSS'):
            self.ndep = r.randint(1, 3)
        else:
            self.ndep = r.choice([0, 0, 0, 1, 2])
        self.dep_ctc = [r.random() < 0.7 for _ in range(self.ndep)]
        self.n_ctc = sum(self.dep_ctc)
        self.n_under6 = r.randint(0, self.n_ctc)
        # income scale
        nkids = self.ndep
        eic = (st.AMOUNTS['eic_limit_mfj'] if joint else st.AMOUNTS['eic_limit_other'])[year][min(3, nkids)]
        floor = eic + 500 + 9000 * self.n_ctc + 2500 * (self.ndep - self.n_ctc)
        if F == 'F6':
            total = r.choice([r.uniform(150000, 290000), r.uniform(200000, 300000), r.uniform(300000, 900000)])
        elif r.random() < 0.08:
            total = r.uniform(5000, floor)      # deliberately inside the unimplemented EIC zone
        else:
            total = floor + r.choice([r.uniform(0, 20000), r.uniform(0, 60000), r.uniform(20000, 150000)])
        if wages is not None:
            total = wages
        self.total_wages = round(total, 2)
        self.n_w2 = r.choice([1, 1, 2, 3]) if F != 'F9' else r.choice([0, 1, 1, 2])
        if F == 'F9' and self.n_w2 == 0:
            pass
        cuts = sorted(r.random() for _ in range(max(0, self.n_w2 - 1)))
        parts = [b - a for a, b in zip([0.0] + cuts, cuts + [1.0])] if self.n_w2 else []
        self.w2 = []
        for k, p in enumerate(parts):
            w = round(self.total_wages * p, 2)
            self.w2.append({
                'box_1': w, 'box_2': round(w * r.uniform(0.05, 0.22), 2), 'box_3': w, 'box_4': round(w * 0.062, 2),
                'box_5': w if r.random() < 0.8 else round(w * 1.03, 2), 'box_6': round(w * 0.0145, 2),
                'box_15': 'NC' if (F == 'F8' or r.random() < 0.3) else r.choice(['', 'VA', 'SC']),
                'box_17': round(w * r.uniform(0.0, 0.05), 2), 'box_19': round(r.choice([0, 0, 50.5]), 2),
                'belongs_to': 'spouse' if (joint and k % 2 == 1) else 'taxpayer',
            })
        # interest / dividends
        p_int = {'F2': 0.95, 'F7': 0.4}.get(F, 0.35)
        self.n_int = r.choice([1, 2, 3]) if r.random() < p_int else 0
        self.ints = []
        big = F == 'F2' and r.random() < 0.6
        for k in range(self.n_int):
            b1 = round(r.uniform(900, 4000) if big else r.uniform(1, 700), 2)
            self.ints.append({'box_1': b1, 'box_3': round(r.choice([0, 0, r.uniform(0, 300)]), 2), 'box_2': round(r.choice([0, 0, 12.34]), 2),
                              'box_4': round(r.choice([0, 0, b1 * 0.1]), 2), 'box_6': round(r.choice([0, 0, 0, r.uniform(1, 120)]), 2) if F == 'F2' else 0.0,
                              'box_8': round(r.choice([0, 0, r.uniform(0, 500)]), 2), 'box_17_1': round(r.choice([0, 0, 7.0]), 2)})
        p_div = {'F2': 0.9}.get(F, 0.3)
        self.n_div = r.choice([1, 2, 3]) if r.random() < p_div else 0
        self.divs = []
        for k in range(self.n_div):
            a = round(r.uniform(900, 5000) if big else r.uniform(5, 900), 2)
            self.divs.append({'box_1a': a, 'box_1b': round(a * r.choice([0, 0.5, 1.0]), 2), 'box_2a': round(r.choice([0, 0, r.uniform(0, 3000)]), 2),
                              'box_4': round(r.choice([0, 0, a * 0.05]), 2), 'box_5': round(r.choice([0, 0, r.uniform(1, 400)]), 2) if F == 'F2' else 0.0,
                              'box_7': round(r.choice([0, 0, r.uniform(1, 100)]), 2) if F == 'F2' else 0.0, 'box_16_1': round(r.choice([0, 0, 3.0]), 2)})
        # 1098 / 1099-g / 1099-r
        self.itemize = F == 'F3' or (F in ('F8', 'F10') and r.random() < 0.4) or r.random() < 0.08
        self.nc = F == 'F8' or r.random() < 0.12
        need1098 = self.itemize or self.nc
        self.n_1098 = r.choice([1, 1, 2, 0]) if (need1098 or (F == 'F10' and r.random() < 0.7)) else 0
        self.f1098 = [{'box_1': round(r.uniform(500, 14000), 2), 'box_6': round(r.choice([0, 0, r.uniform(100, 2000)]), 2),
                       'box_4': round(r.choice([0, 0, r.uniform(10, 300)]) if F == 'F10' else 0, 2), 'box_5': 0.0} for _ in range(self.n_1098)]
        self.n_1099g = r.choice([1, 2]) if (F == 'F10' or r.random() < 0.08) else 0
        self.f1099g = [{'box_2': round(r.uniform(20, 1500), 2), 'box_1': 0.0, 'box_4': 0.0, 'box_11_1': round(r.choice([0, 5.0]), 2),
                        'box_10a_1': r.choice(['NC', '', 'VA'])} for _ in range(self.n_1099g)]
        self.n_1099r = r.choice([1, 2]) if (F in ('F9', 'F5') or r.random() < 0.06) else 0
        self.f1099r = []
        for k in range(self.n_1099r):
            g = round(r.uniform(500, 30000), 2)
            ira = (F == 'F5') or (F != 'F9' and r.random() < 0.3)
            self.f1099r.append({'box_1': g, 'box_2a': round(g * r.choice([1.0, 1.0, 0.5]), 2), 'box_4': round(g * r.choice([0, 0.1]), 2), 'ira': ira,
                                'belongs_to': 'spouse' if (joint and k == 1) else 'taxpayer', 'box_14_1': round(r.choice([0, g * 0.03]), 2)})
        self.ira_mode = r.choice(['plain', 'plain', 'rollover', '8606', 'qcd']) if F == 'F5' else 'plain'
        # Schedule A amounts
        self.sa = {
            'medical_dental_expenses': round(r.choice([0, r.uniform(0, 3000), r.uniform(5000, 40000)]), 2),
            'state_local_real_estate_taxes': round(r.uniform(0, 12000), 2),
            'state_local_personal_property_taxes': round(r.choice([0, r.uniform(0, 800)]), 2),
            'other_taxes_amount': round(r.choice([0, 0, r.uniform(1, 500)]), 2),
            'other_mortgage_interest': round(r.choice([0, 0, r.uniform(1, 2000)]), 2),
            'other_mortgage_points': round(r.choice([0, 0, r.uniform(1, 900)]), 2),
            'charitable_cash_check': round(r.choice([0, r.uniform(0, 9000)]), 2),
            'charitable_other_than_cash_check': round(r.choice([0, r.uniform(0, 450), r.uniform(501, 3000)]), 2),
            'charitable_carryover': round(r.choice([0, 0, r.uniform(1, 1000)]), 2),
            'other_itemized': round(r.choice([0, 0, r.uniform(1, 700)]), 2),
        }
        self.itemize_though_less = r.random() < 0.15
        # Schedule 1
        self.s1_income = F == 'F10' or r.random() < 0.1
        self.s1_adjust = F == 'F4' or r.random() < 0.12
        self.s1 = {
            'alimony_received': round(r.choice([0, 0, r.uniform(100, 9000)]), 2),
            'unemployment_income': round(r.choice([0, 0, r.uniform(100, 6000)]), 2),
            'other_income_amount': round(r.uniform(10, 2000), 2),
            'educator_expenses': round(r.choice([0, 0, 250, r.uniform(1, 500)]), 2),
            'alimony_paid': round(r.choice([0, 0, r.uniform(100, 7000)]), 2),
            'traditional_ira_deduction': round(r.choice([0, 0, r.uniform(100, 6000)]), 2),
            'other_adjustments_amount': round(r.uniform(10, 900), 2),
            'state_local_income_tax': round(r.uniform(10, 900), 2),
        }
        self.need_other_income = r.random() < 0.3
        self.need_other_adjustments = r.random() < 0.3
        self.state_local_adjust = r.random() < 0.2
        # HSA
        self.hsa_you = F == 'F4' and r.random() < 0.85
        self.hsa_spouse = F == 'F4' and joint and r.random() < 0.5
        self.hsa_family = r.random() < 0.5
        # payments
        self.estimated = round(r.choice([0, 0, r.uniform(100, 8000)]), 2)
        self.other_wh = round(r.choice([0, 0, r.uniform(10, 900)]), 2)
        self.apply_next = round(r.choice([0, 0, r.uniform(1, 2000)]), 2)
        self.tax_penalty = round(r.choice([0, r.uniform(1, 300)]), 2)
        if F == 'F7':
            for w in self.w2:
                w['box_2'] = round(w['box_1'] * r.uniform(0.0, 0.04), 2)
        # 8606
        self.f8606 = {
            'part_1_needed': r.random() < 0.7, 'part_2_needed': r.random() < 0.4, 'part_3_needed': r.random() < 0.3,
            'distribution_or_roth_conversion': r.random() < 0.7,
            'nondeductible_contributions': round(r.uniform(0, 6000), 2), 'traditional_basis': round(r.uniform(0, 20000), 2),
            'nondeductible_contributions_next_year': round(r.choice([0, r.uniform(0, 1000)]), 2),
            'year_end_value_non_roth': round(r.uniform(1000, 90000), 2), 'net_converted': round(r.choice([0, r.uniform(100, 9000)]), 2),
            'converted_cost_basis': 0.0,
            'total_nonqualified_distributions': round(r.choice([0, r.uniform(100, 5000)]), 2), 'qualified_homebuyer': round(r.choice([0, r.uniform(0, 5000)]), 2),
            'roth_ira_contributions_basis': round(r.uniform(5000, 30000), 2),
        }
        # the basis in a converted amount cannot exceed the amount converted (Form 8606 line 17)
        self.f8606['converted_cost_basis'] = round(min(r.uniform(0, 100), self.f8606['net_converted']), 2)
        # NC
        self.ncv = {
            'additions_to_agi': r.random() < 0.4, 'deductions_from_agi': r.random() < 0.5, 'try_itemizing': r.random() < 0.6,
            'no_consumer_use_tax': r.random() < 0.5, 'full_records': r.random() < 0.5,
            'estimated_tax': round(r.choice([0, 0, r.uniform(10, 3000)]), 2), 'paid_with_extension': round(r.choice([0, 0, r.uniform(10, 500)]), 2),
            'interest_on_underpayment': round(r.choice([0, r.uniform(1, 90)]), 2),
            'refund_contrib': round(r.choice([0, 0, r.uniform(1, 30)]), 0),
        }
        self.sprinkle = r.random() < 0.5
        # 2021 extras
        self.advance_ctc = round(r.choice([0, 0, 250.0 * self.n_ctc * r.randint(1, 6)]), 2)
        self.answers = {}

    # ------------------------------------------------------------------
    def forms(self):
        return ['1040', 'nc_d-400'] if self.nc else ['1040']

    def describe(self):
        return {'year': self.year, 'family': self.family, 'key': self.key, 'status': self.status, 'dependants': self.ndep,
                'ctc': self.n_ctc, 'w2': self.n_w2, 'wages': self.total_wages, 'int': self.n_int, 'div': self.n_div,
                '1098': self.n_1098, '1099g': self.n_1099g, '1099r': self.n_1099r, 'itemize': self.itemize, 'nc': self.nc,
                'hsa': [self.hsa_you, self.hsa_spouse], 'forms': self.forms(), 'overrides': self.overrides}

    def answer(self, inp):
        name = inp.name()
        if name in self.overrides:
            t = self.overrides[name]
        else:
            t = self._answer(inp)
            if not inp.valid(t):
                # the same name has another type in another year (e.g. 2021's
                # 1040_s1.traditional_ira_deduction is a yes/no question)
                full, base = name.split('.', 1)
                t = self._typed_default(inp, base)
        self.answers[name] = t
        return t

    def _typed_default(self, inp, base):
        if isinstance(inp, I.BooleanInput):
            return 'no'
        if isinstance(inp, I.IntegerInput):
            return '0'
        if isinstance(inp, I.FloatInput):
            return '0'
        if isinstance(inp, I.EnumInput):
            if inp.allow_empty:
                return ''
            return list(inp.enum.__members__)[0]
        if isinstance(inp, I.SSNInput):
            return '078-05-1120'
        if isinstance(inp, I.RegexInput):
            if 'routing' in base:
                return '021000021'
            return '1234567'
        return f'{base} text'

    def _answer(self, inp):
        name = inp.name()
        full, base = name.split('.', 1)
        fbase = full.split(':')[0]
        inst = full.split(':')[1] if ':' in full else None
        r = rng_for(self.key, self.year, self.family, name)
        fn = getattr(self, '_f_' + fbase.replace('-', '_'), None)
        if fn is not None:
            t = fn(base, inst, inp, r)
            if t is not None:
                return t if isinstance(t, str) else (('yes' if t else 'no') if isinstance(t, bool) else (money(t) if isinstance(t, float) else str(t)))
        return self._typed_default(inp, base)

    # -------- per-form answer tables
    def _f_1040(self, b, inst, inp, r):
        joint = self.joint
        y = self.year
        if b == 'filing_status':
            return STATUS_MEMBERS[y][self.status]
        if b == 'first_name':
            return r.choice(FIRST)
        if b == 'last_name':
            return r.choice(LAST)
        if b == 'middle_initial':
            return r.choice(['Q', '', 'X'])
        if b == 'spouse_first_name':
            return r.choice(FIRST)
        if b == 'spouse_last_name':
            return r.choice(LAST)
        if b == 'spouse_middle_initial':
            return r.choice(['', 'Z'])
        if b == 'you_ssn':
            return '123-45-6789'
        if b == 'spouse_ssn':
            return '987654321'
        if b in ('occupation', 'spouse_occupation'):
            return r.choice(['Engineer', 'Teacher', 'Nurse'])
        if b == 'phone_number':
            return '919-555-0100'
        if b == 'email_address':
            return 'taxpayer@example.org'
        if b == 'home_address':
            return r.choice(['12 Main Street', '12 Main St #4', '7 Elm Rd ; rear'])
        if b == 'apartment_no':
            return r.choice(['', '4B', '#4'])
        if b == 'city':
            return 'Durham'
        if b == 'state':
            return 'NC'
        if b == 'zip':
            return '27701'
        if b.startswith('foreign_'):
            # every fifth filer has a foreign address (decided from the key, not from the random stream)
            if int(h([self.key, 'foreign'], 4), 16) % 5 == 0:
                return {'foreign_country': 'France', 'foreign_province': 'Ile de France', 'foreign_postal_code': '75001'}.get(b, '')
            return ''
        if b == 'number_dependents':
            return self.ndep
        m = re.match(r'^dependent_(\d)_(.*)$', b)
        if m:
            n = int(m.group(1))
            what = m.group(2)
            if what == 'name':
                return f'{FIRST[n]} {LAST[n]}'
            if what == 'ssn':
                return f'11122333{n}'
            if what == 'relationship':
                return r.choice(['son', 'daughter', 'parent'])
            if what == 'ctc':
                return n < self.ndep and self.dep_ctc[n]
            if what == 'odc':
                return n < self.ndep and not self.dep_ctc[n]
        if b == 'number_w-2':
            return self.n_w2
        if b == 'number_1098':
            return self.n_1098
        if b == 'number_1099-g':
            return self.n_1099g
        if b == 'number_1099-int':
            return self.n_int
        if b == 'number_1099-div':
            return self.n_div
        if b == 'number_1099-r':
            return self.n_1099r
        if b == 'number_1099-oid':
            return 0
        if b == 'itemize':
            return self.itemize
        if b == 'schedule_1_additional_income':
            return self.s1_income
        if b == 'schedule_1_income_adjustments':
            # an early-withdrawal penalty on a 1099-INT (box 2) is an adjustment to income (Schedule 1 line 18)
            return self.s1_adjust or self.hsa_you or self.hsa_spouse or any(d.get('box_2', 0) > 0 for d in self.ints)
        if b == 'estimated_tax_payments':
            return self.estimated
        if b == 'other_federal_withholding':
            return self.other_wh
        if b == 'apply_to_estimated_tax':
            return self.apply_next
        if b == 'tax_penalty':
            return self.tax_penalty
        if b == 'checking_account':
            return r.random() < 0.5
        if b == 'you_presidential_election':
            return r.random() < 0.3
        if b == 'spouse_presidential_election':
            return r.random() < 0.3
        if b in ('non_w-2_household_employee_income', 'non_w-2_tip_income', 'non_w-2_medicaid_waiver', 'other_earned_income'):
            return round(r.choice([0, 0, 0, r.uniform(1, 900)]), 2) if self.sprinkle else 0.0
        if b == 'charitable_contributions_std_ded':
            return round(r.choice([0, r.uniform(1, 900)]), 2)
        for who in ('you', 'spouse'):
            mode_ = getattr(self, 'ira_modes', {}).get(who, self.ira_mode)
            if b == f'ira_exception1_{who}':
                return mode_ == 'rollover'
            if b == f'ira_exception2_{who}':
                return mode_ == '8606'
            if b == f'ira_exception3_{who}':
                return mode_ == 'qcd'
            if b == f'ira_exception1_{who}':
                return self.ira_mode == 'rollover'
            if b == f'ira_exception1_{who}_total':
                return True
            if b == f'ira_exception2_{who}':
                return self.ira_mode == '8606'
            if b == f'ira_exception3_{who}':
                return self.ira_mode == 'qcd'
            if b == f'ira_exception3_{who}_total':
                return True
        # 2021 recovery rebate
        if b in ('eip_3_amount', 'economic_impact_payment_3'):
            return round(r.choice([0, 1400.0, 2800.0]), 2)
        return None

    def _f_w_2(self, b, inst, inp, r):
        k = int(inst)
        if k >= len(self.w2):
            return None
        w = self.w2[k]
        if b in w:
            return w[b]
        if b == 'box_c':
            return f'Employer {k} Inc'
        if b == 'box_e':
            return 'Employee Name'
        if b == 'box_16':
            return w['box_1']
        return None

    def _f_1099_int(self, b, inst, inp, r):
        k = int(inst)
        if k >= len(self.ints):
            return None
        d = self.ints[k]
        if b in d:
            return d[b]
        if b == 'payer':
            return f'Bank {k} (N.A.)' if False else f'Bank {k}'
        if b == 'belongs_to':
            return r.choice(['taxpayer', 'both', 'spouse']) if self.joint else 'taxpayer'
        if b == 'box_15_1':
            return 'NC' if d.get('box_17_1') else ''
        return None

    def _f_1099_div(self, b, inst, inp, r):
        k = int(inst)
        if k >= len(self.divs):
            return None
        d = self.divs[k]
        if b in d:
            return d[b]
        if b == 'payer':
            return f'Fund {k}'
        if b == 'belongs_to':
            return r.choice(['taxpayer', 'both', 'spouse']) if self.joint else 'taxpayer'
        if b == 'box_14_1':
            return 'NC' if d.get('box_16_1') else ''
        return None

    def _f_1098(self, b, inst, inp, r):
        k = int(inst)
        if k >= len(self.f1098):
            return None
        d = self.f1098[k]
        if b in d:
            return d[b]
        if b == 'belongs_to':
            return 'both' if self.joint else 'taxpayer'
        if b == 'box_9':
            return 1
        return None

    def _f_1099_g(self, b, inst, inp, r):
        k = int(inst)
        if k >= len(self.f1099g):
            return None
        d = self.f1099g[k]
        if b in d:
            return d[b]
        if b == 'belongs_to':
            return 'taxpayer'
        if b == 'box_3':
            return self.year - 1
        return None

    def _f_1099_r(self, b, inst, inp, r):
        k = int(inst)
        if k >= len(self.f1099r):
            return None
        d = self.f1099r[k]
        if b in d:
            return d[b]
        if b == 'box_7_ira_sep_simple':
            return d['ira']
        if b == 'box_14_1_state':
            return 'NC' if d['box_14_1'] else ''
        if b == 'box_7_distirbution_codes':
            return '7'
        return None

    def _f_1040_sa(self, b, inst, inp, r):
        if b in self.sa:
            return self.sa[b]
        if b == 'itemize_though_less':
            return self.itemize_though_less
        if b == 'filling_8283':
            return getattr(self, 'filing_8283', True)
        if b.endswith('_type') or b.endswith('_desc'):
            return 'described here'
        return None

    S1_INCOME = ('alimony_received', 'unemployment_income', 'other_income_amount', 'state_local_income_tax')
    S1_ADJUST = ('educator_expenses', 'alimony_paid', 'traditional_ira_deduction', 'other_adjustments_amount')

    def _f_1040_s1(self, b, inst, inp, r):
        # coherent with the yes/no answers on Form 1040: no amounts for a part of Schedule 1 the persona says it does not need
        if b in self.S1_INCOME + ('need_other_income', 'state_local_income_tax_adjust') and not self.s1_income:
            return None
        if b in self.S1_ADJUST + ('need_other_adjustments',) and not (self.s1_adjust or self.hsa_you or self.hsa_spouse or any(d.get('box_2', 0) > 0 for d in self.ints)):
            return None
        if b in self.s1:
            return self.s1[b]
        if b == 'hsa_contribution_you':
            return self.hsa_you
        if b == 'hsa_contribution_spouse':
            return self.hsa_spouse
        if b == 'need_other_income':
            return self.need_other_income
        if b == 'need_other_adjustments':
            return self.need_other_adjustments
        if b == 'state_local_income_tax_adjust':
            return self.state_local_adjust
        if b in ('alimony_received_date', 'alimony_paid_date'):
            return '01/02/2015'
        if b == 'alimony_paid_ssn':
            return '222-33-4444'
        if b.endswith('_type'):
            return 'Jury duty'
        return None

    def _f_1040_s8812(self, b, inst, inp, r):
        if b in ('number_under_17', 'number_under_18'):
            return self.n_ctc
        if b == 'number_under_6':
            return self.n_under6
        if b == 'principal_abode_us':
            return True
        if b == 'advance_ctc_payments':
            return self.advance_ctc
        if b == 'number_children_letter':
            if getattr(self, 'letter_children', None) is not None:
                return self.letter_children
            return self.n_ctc if self.advance_ctc else 0
        return None

    def _f_8889(self, b, inst, inp, r):
        if b == 'age_under_55':
            return not getattr(self, 'hsa_over_55', False)
        if b == 'hsa_full_year':
            return not getattr(self, 'hsa_part_year', False)
        if b == 'hdhp_plan_family':
            return self.hsa_family and (getattr(self, 'hsa_family_both', False) or not (self.hsa_you and self.hsa_spouse))
        if b == 'hsa_contributions':
            return getattr(self, 'hsa_own', None) if getattr(self, 'hsa_own', None) is not None else round(r.uniform(100, 3000), 2)
        if b == 'employer_contribution':
            return getattr(self, 'hsa_employer', None) if getattr(self, 'hsa_employer', None) is not None else round(r.choice([0, r.uniform(0, 500)]), 2)
        return None

    def _f_8606(self, b, inst, inp, r):
        if b in self.f8606:
            v = self.f8606[b]
            return v
        if b == 'distributions_' + str(self.year) or b.startswith('distributions_'):
            return round(r.uniform(100, 9000), 2)
        return None

    def _f_nc_d_400(self, b, inst, inp, r):
        if b == 'nc_residents':
            return True
        if b == 'county':
            return r.choice(['Durham', 'Wake', 'Orange'])
        if b in ('veteran', 'spouse_veteran', 'federal_extension', 'out_of_country'):
            return r.random() < 0.3
        if b in self.ncv:
            return self.ncv[b]
        if b in ('2024_estimated_income_tax', '2023_estimated_income_tax', '2022_estimated_income_tax', 'nc_nongame_endangered_wildlife',
                 'nc_education_endowment', 'nc_breast_cervical_cancer'):
            return float(self.ncv['refund_contrib'])
        if b == 'year_spouse_died':
            return self.year - 1
        return None

    def _f_nc_d_400_consumer_use_tax_wkst(self, b, inst, inp, r):
        if b == 'full_records':
            return self.ncv['full_records']
        # names differ by year (2022 splits the year at October 1): answer by what the input is
        if 'purchases' in b:
            return round(r.uniform(0, 4000), 2)
        if 'pct' in b:
            return r.choice(['0.075', '0.0725', '0.07'])
        if b == 'other_state_sales_tax':
            return round(r.choice([r.uniform(0, 100), r.uniform(0, 500)]), 2)
        return None

    NC_ADDITIONS = ('interest_income_not_nc', 'deferred_gains_opportunity_fund', 'bonus_depreciation_deducted', 'section_179_expense_difference',
                    's_corp_builtin_gains', 'federal_basis_exceeds_nc', 'net_operating_loss_deduction', 'tax_deducted_by_s_corp',
                    '529_contributions_wrong_purpose', 'cancelled_residence_debt', 'employer_education_loan_payments', 'expenses_allocable_exempt',
                    'discharged_student_debt', 'taxed_pass_through_entity_loss', 'business_meal_deduction')

    def _f_nc_d_400_ss(self, b, inst, inp, r):
        # coherent with the D-400 yes/no answers: no additions / deductions unless the persona says it has some
        if b in self.NC_ADDITIONS and not self.ncv['additions_to_agi']:
            return None
        if b not in self.NC_ADDITIONS and not self.ncv['deductions_from_agi']:
            return None
        if isinstance(inp, I.FloatInput):
            return round(r.choice([0, 0, 0, r.uniform(1, 1500)]), 2)
        if b in ('bonus_depreciation', 'section_179_expense'):
            return r.random() < 0.3
        return None

    def _f_nc_d_400_sa(self, b, inst, inp, r):
        if b == 'claim_of_right_income':
            return round(r.choice([0, 0, r.uniform(1, 500)]), 2)
        return None


# ----------------------------------------------------------------------
def solve_persona(p, tracer=None, schedule_seed=None, file_map=None, refuse_from=None, forms=None, extra_answer=None, input_path=None, then_request=None, field_names=()):
    """Run the real solver for persona p, answering by demand.  refuse_from=k:
    the user answers k questions and refuses afterwards."""
    classes = hx.catalogue(p.year)
    cp = input_path if input_path is not None else drive.config_from(file_map or {})
    n = [0]

    def answer(missing, needed_by):
        if refuse_from is not None and n[0] >= refuse_from:
            return None
        n[0] += 1
        if extra_answer is not None:
            t = extra_answer(missing)
            if t is not None:
                p.answers[missing.name()] = t
                return t
        return p.answer(missing)
    out = drive.run_solver(classes, cp, forms or p.forms(), answer=answer, schedule_seed=schedule_seed, tracer=tracer, then_request=then_request, field_names=field_names)
    out.persona = p
    return out


def personas(seed, year, family, n, start=0):
    for k in range(start, start + n):
        yield Persona(year, family, f'{seed}:{k}')


def typed_solution(out):
    """{key: typed value} of a finished solve, read through public API only
    (solution() text + Field.from_string)."""
    res = {}
    for sec, kv in drive.solution_map(out).items():
        for k, text in kv.items():
            fld = drive.find_field(out, f'{sec}.{k}')
            if fld is not None:
                res[f'{sec}.{k}'] = fld.from_string(text)
    return res


def plain_persona(year, status, wages, key='plain', deps_odc=0, deps_ctc=0, **kw):
    """A fully controlled persona: one W-2 (or several, wages as a list), nothing
    else unless asked for through keyword features.  Used by directed probes."""
    p = Persona(year, 'F0', key, status=status)
    p.status = status
    p.joint = status == 'MFJ'
    p.ndep = deps_odc + deps_ctc
    p.dep_ctc = [True] * deps_ctc + [False] * deps_odc
    p.n_ctc = deps_ctc
    p.n_under6 = 0
    ws = wages if isinstance(wages, (list, tuple)) else [wages]
    p.n_w2 = len(ws)
    p.total_wages = float(sum(ws))
    p.w2 = [{'box_1': float(w), 'box_2': round(float(w) * kw.get('withhold', 0.15), 2), 'box_3': float(w), 'box_4': round(float(w) * 0.062, 2), 'box_5': float(w),
             'box_6': round(float(w) * 0.0145, 2), 'box_15': 'NC', 'box_17': round(float(w) * 0.03, 2), 'box_19': 0.0,
             'belongs_to': 'spouse' if (p.joint and k % 2 == 1) else 'taxpayer'} for k, w in enumerate(ws)]
    p.n_int, p.ints, p.n_div, p.divs = 0, [], 0, []
    p.n_1098, p.f1098, p.n_1099g, p.f1099g, p.n_1099r, p.f1099r = 0, [], 0, [], 0, []
    p.itemize, p.nc, p.itemize_though_less = False, False, False
    p.s1_income, p.s1_adjust, p.hsa_you, p.hsa_spouse = False, False, False, False
    p.need_other_income, p.need_other_adjustments, p.state_local_adjust = False, False, False
    p.estimated, p.other_wh, p.apply_next, p.tax_penalty = 0.0, 0.0, 0.0, 0.0
    p.sprinkle = False
    p.advance_ctc = 0.0
    for k in p.s1:
        p.s1[k] = 0.0
    for k in p.sa:
        p.sa[k] = 0.0
    for k in list(p.ncv):
        p.ncv[k] = False if isinstance(p.ncv[k], bool) else 0.0
    p.ncv['no_consumer_use_tax'] = True
    for name, val in kw.items():
        if name in ('withhold',):
            continue
        if name == 'overrides':
            p.overrides.update(val)
        else:
            setattr(p, name, val)
    return p


def directed_personas(year, seed, n):
    """Scenarios aimed at branches that random personas rarely exercise."""
    from hv.common import rng_for
    out = []
    for k in range(n):
        r = rng_for('C02dir', seed, year, k)
        # both spouses with IRA distributions figured on their own Form 8606
        p = plain_persona(year, 'MFJ', [round(r.uniform(40000, 90000), 2), round(r.uniform(30000, 60000), 2)], key=f'dir8606:{seed}:{k}', deps_odc=r.choice([0, 1]))
        p.n_1099r = 2
        p.f1099r = [{'box_1': round(r.uniform(2000, 9000), 2), 'box_2a': 0.0, 'box_4': round(r.choice([0, 120.0]), 2), 'ira': True, 'belongs_to': who, 'box_14_1': 0.0}
                    for who in ('taxpayer', 'spouse')]
        for d in p.f1099r:
            d['box_2a'] = d['box_1']
        p.ira_mode = '8606'
        p.f8606.update({'part_1_needed': True, 'part_2_needed': True, 'part_3_needed': False, 'distribution_or_roth_conversion': True,
                        'net_converted': round(r.uniform(1000, 9000), 2), 'traditional_basis': round(r.uniform(2000, 20000), 2),
                        'nondeductible_contributions': round(r.uniform(0, 6000), 2), 'year_end_value_non_roth': round(r.uniform(5000, 90000), 2)})
        out.append(('F5d', p))
        # both spouses with an HSA
        p = plain_persona(year, 'MFJ', [round(r.uniform(50000, 90000), 2), round(r.uniform(30000, 60000), 2)], key=f'dirhsa:{seed}:{k}',
                               hsa_you=True, hsa_spouse=True, hsa_family=False, s1_adjust=True)
        out.append(('F4d', p))
        # married filing separately: the filer has an HSA and says the spouse has one too (the spouse files an own return)
        p = plain_persona(year, 'MFS', round(r.uniform(50000, 90000), 2), key=f'dirhsamfs:{seed}:{k}', hsa_you=True, hsa_spouse=True, hsa_family=False, s1_adjust=True)
        out.append(('F4m', p))
        # a filer of 55 or more with self-only coverage (the additional contribution), and one covered for part of the year only
        p = plain_persona(year, 'S', round(r.uniform(50000, 90000), 2), key=f'dirhsa55:{seed}:{k}', hsa_you=True, hsa_family=False, s1_adjust=True)
        p.hsa_over_55 = True
        out.append(('F4o', p))
        p = plain_persona(year, 'S', round(r.uniform(50000, 90000), 2), key=f'dirhsapy:{seed}:{k}', hsa_you=True, hsa_family=False, s1_adjust=True)
        p.hsa_part_year = True
        out.append(('F4y', p))
        # the employer (cafeteria plan, W-2 box 12 code W) put in more than the year's limit, or exactly the limit; nothing of the filer's own
        p = plain_persona(year, 'S', round(r.uniform(50000, 90000), 2), key=f'dirhsaemp:{seed}:{k}', hsa_you=True, hsa_family=False, s1_adjust=True)
        p.hsa_own, p.hsa_employer = 0.0, float(_stat.amount('hsa_limit_self', year, 'S')) + (150.0 if k % 2 == 0 else 0.0)
        out.append(('F4e', p))
        # the same with family coverage (both spouses on a family plan: the limit is shared)
        p = plain_persona(year, 'MFJ', [round(r.uniform(50000, 90000), 2), round(r.uniform(30000, 60000), 2)], key=f'dirhsaf:{seed}:{k}',
                               hsa_you=True, hsa_spouse=True, hsa_family=True, s1_adjust=True)
        p.hsa_family_both = True
        out.append(('F4f', p))
        # itemizer with medical expenses above the floor and capped state taxes
        st = r.choice(['S', 'MFJ', 'MFS', 'HOH'])
        p = plain_persona(year, st, round(r.uniform(60000, 140000), 2), key=f'diritem:{seed}:{k}', deps_odc=1 if st == 'HOH' else 0, itemize=True, n_1098=1,
                               f1098=[{'box_1': round(r.uniform(6000, 15000), 2), 'box_6': round(r.choice([0, 800.0]), 2), 'box_4': 0.0, 'box_5': 0.0}])
        p.sa.update({'medical_dental_expenses': round(r.uniform(12000, 30000), 2), 'state_local_real_estate_taxes': round(r.uniform(3000, 14000), 2),
                     'charitable_cash_check': round(r.uniform(0, 5000), 2), 'charitable_other_than_cash_check': round(r.uniform(0, 400), 2), 'other_itemized': round(r.choice([0, 150.0]), 2)})
        out.append(('F3d', p))
        # high earner: Form 8959, phase-out of the child credit
        p = plain_persona(year, r.choice(['S', 'MFJ', 'HOH']), round(r.uniform(205000, 290000), 2), key=f'dirhigh:{seed}:{k}', deps_ctc=r.choice([0, 1, 2]), deps_odc=1)
        p.other_wh = round(r.choice([0, 250.0]), 2)
        out.append(('F6d', p))
        # NC return with additions, deductions, a child deduction and use tax
        st = r.choice(['S', 'MFJ', 'HOH', 'MFS'])
        p = plain_persona(year, st, round(r.uniform(30000, 120000), 2), key=f'dirnc:{seed}:{k}', deps_ctc=r.choice([1, 2]), nc=True, n_1098=1,
                               f1098=[{'box_1': round(r.uniform(2000, 9000), 2), 'box_6': 0.0, 'box_4': 0.0, 'box_5': 0.0}])
        p.ncv.update({'additions_to_agi': True, 'deductions_from_agi': True, 'try_itemizing': r.random() < 0.5, 'no_consumer_use_tax': False, 'full_records': r.random() < 0.5,
                      'estimated_tax': round(r.choice([0, 500.0]), 2)})
        p.sa['state_local_real_estate_taxes'] = round(r.uniform(0, 9000), 2)
        out.append(('F8d', p))
        # qualified dividends, capital gain distributions and section 199A dividends
        st = r.choice(['S', 'MFJ', 'HOH', 'MFS', 'QSS'])
        p = plain_persona(year, st, round(r.uniform(30000, 160000), 2), key=f'dirdiv:{seed}:{k}', deps_odc=1 if st in ('HOH', 'QSS') else 0, n_div=2,
                               divs=[{'box_1a': round(r.uniform(500, 9000), 2), 'box_1b': round(r.uniform(100, 500), 2), 'box_2a': round(r.uniform(0, 4000), 2), 'box_4': 0.0,
                                      'box_5': round(r.uniform(10, 400), 2), 'box_7': round(r.choice([0, 40.0]), 2), 'box_16_1': 0.0} for _ in range(2)])
        out.append(('F2d', p))
        # very high earner with qualified dividends: 20 % capital-gain bracket, AMT exemption phase-out (partial solution: Form 6251 is unsupported)
        st = r.choice(['S', 'MFJ', 'HOH', 'MFS'])
        w = round(r.uniform(600000, 1400000), 2)
        p = plain_persona(year, st, [w / 2, w / 2] if st == 'MFJ' else [w / 2, w / 2], key=f'dirrich:{seed}:{k}', deps_odc=1 if st == 'HOH' else 0, n_div=1,
                               divs=[{'box_1a': 90000.0, 'box_1b': round(r.uniform(20000, 80000), 2), 'box_2a': round(r.uniform(0, 30000), 2), 'box_4': 0.0, 'box_5': 0.0, 'box_7': 0.0, 'box_16_1': 0.0}])
        for d in p.w2:      # the employer withholds the additional 0.9 % above 200,000
            d['box_6'] = round(d['box_5'] * 0.0145 + max(0.0, d['box_5'] - 200000.0) * 0.009, 2)
        out.append(('F6r', p))
        if year == 2021:
            # recovery rebate credit inside its phase-out band with a PARTIAL third payment already received: more than the reduced
            # credit (worksheet line 12), less than the full one (line 8) - nothing more is due, and nothing is taken back
            st_, lo_, hi_, full_ = [('S', 75000, 80000, 1400.0), ('HOH', 112500, 120000, 2800.0), ('MFJ', 150000, 160000, 2800.0)][k % 3]
            agi_ = round(lo_ + (hi_ - lo_) * r.uniform(0.45, 0.75), 2)
            p = plain_persona(year, st_, agi_, key=f'dirrrc:{seed}:{k}', deps_odc=1 if st_ == 'HOH' else 0,
                              overrides={'1040_recovery_rebate_credit_wkst.ssn_before_due_date': 'yes', '1040_recovery_rebate_credit_wkst.spouse_ssn_before_due_date': 'yes',
                                         '1040_recovery_rebate_credit_wkst.dependents_ssn_before_due_date': '1' if st_ == 'HOH' else '0',
                                         '1040_recovery_rebate_credit_wkst.eip_3_amount': f'{full_ * r.uniform(0.6, 0.9):.2f}'})
            out.append(('F1r', p))
        # a homeowner with a Form 1098 (small interest, nothing refunded) who takes the standard deduction: the statement is on the
        # return's books although no schedule uses it
        p = plain_persona(year, r.choice(['S', 'MFJ', 'HOH']), round(r.uniform(50000, 90000), 2), key=f'dirhome:{seed}:{k}', n_1098=1,
                          f1098=[{'box_1': round(r.uniform(300, 2500), 2), 'box_6': 0.0, 'box_4': 0.0, 'box_5': 0.0}])
        if p.status == 'HOH':
            p.ndep, p.dep_ctc, p.n_ctc = 1, [False], 0
        out.append(('F3h', p))
        # a joint return where ONE employer paid more than 200,000 (and withheld the additional 0.9 % above it) while the couple's
        # Medicare wages stay below the joint threshold of 250,000: Form 8959 is required for the withholding, no additional tax is due
        w1 = round(r.uniform(205000, 235000), 2)
        p = plain_persona(year, 'MFJ', [w1, round(r.uniform(5000, 250000 - w1 - 100), 2)], key=f'dirjoint8959:{seed}:{k}')
        for d in p.w2:
            d['box_6'] = round(d['box_5'] * 0.0145 + max(0.0, d['box_5'] - 200000.0) * 0.009, 2)
        out.append(('F6j', p))
        # Roth distributions (Form 8606 part III) next to a traditional IRA distribution
        p = plain_persona(year, 'S', round(r.uniform(50000, 90000), 2), key=f'dirroth:{seed}:{k}')
        p.n_1099r = 1
        p.f1099r = [{'box_1': 4000.0, 'box_2a': 4000.0, 'box_4': 0.0, 'ira': True, 'belongs_to': 'taxpayer', 'box_14_1': 0.0}]
        p.ira_mode = '8606'
        p.f8606.update({'part_1_needed': False, 'part_2_needed': False, 'part_3_needed': True, 'total_nonqualified_distributions': round(r.uniform(3000, 9000), 2),
                        'qualified_homebuyer': round(r.choice([0, 1000.0]), 2), 'roth_ira_contributions_basis': round(r.uniform(500, 12000), 2)})
        if k % 2 == 0:
            # the whole Roth distribution is a qualified first-time homebuyer distribution: line 21 is zero, nothing is taxable
            p.f8606['qualified_homebuyer'] = p.f8606['total_nonqualified_distributions']
        out.append(('F5r', p))
        if True:
            # Form 8606 filed only to report a nondeductible contribution (part I, no distribution)
            p = plain_persona(year, 'S', round(r.uniform(50000, 90000), 2), key=f'dirnd:{seed}:{k}')
            p.n_1099r = 1
            p.f1099r = [{'box_1': 2500.0, 'box_2a': 2500.0, 'box_4': 0.0, 'ira': True, 'belongs_to': 'taxpayer', 'box_14_1': 0.0}]
            p.ira_mode = '8606'
            p.f8606.update({'part_1_needed': True, 'part_2_needed': False, 'part_3_needed': False, 'distribution_or_roth_conversion': False,
                            'nondeductible_contributions': round(r.uniform(500, 6000), 2)})
            out.append(('F5r', p))
        # federal AGI a few cents above a band edge of the N.C. child-deduction table (the worksheet works on whole dollars)
        st_ = r.choice(['S', 'MFJ', 'HOH', 'MFS', 'QSS'])
        edge = r.choice(_stat.NC_CHILD[year][st_])[0]
        p = plain_persona(year, st_, edge + r.choice([0.40, 0.25, 0.49, -0.40]), key=f'diredge:{seed}:{k}', deps_ctc=r.choice([1, 2]), nc=True)
        out.append(('F8e', p))
        # AGI an exact multiple of 1,000 above the child-tax-credit phase-out threshold ("if not a multiple of $1,000, the next multiple")
        st_ = r.choice(['S', 'HOH', 'MFS', 'MFJ'])
        base_ = 400000 if st_ == 'MFJ' else 200000
        p = plain_persona(year, st_, float(base_ + 1000 * r.randint(1, 40)), key=f'dirk:{seed}:{k}', deps_ctc=r.choice([1, 2]), deps_odc=r.choice([0, 1]))
        out.append(('F1k', p))
        # little earned income, large qualified dividends and capital-gain distributions, some REIT dividends:
        # Form 8995 with net capital gain above taxable income (lines 12-15), the capital-gain worksheet at its floors
        st_ = r.choice(['S', 'MFJ', 'HOH'])
        base_ = _stat.amount('standard_deduction', year, st_)
        low_ = r.uniform(-9000, -500)
        p = plain_persona(year, st_, round(base_ + (low_ if k % 2 == 0 else r.uniform(-3000, 6000)), 2), key=f'dirqbi:{seed}:{k}', deps_odc=1 if st_ == 'HOH' else 0, n_div=1,
                               divs=[{'box_1a': 40000.0 if k % 2 == 0 else 14000.0, 'box_1b': round(40000.0 if k % 2 == 0 else r.uniform(9000, 14000), 2), 'box_2a': round(r.uniform(0, 9000), 2), 'box_4': 0.0,
                                      'box_5': round(r.uniform(50, 900), 2), 'box_7': 0.0, 'box_16_1': 0.0}])
        out.append(('F2q', p))
        # N.C. return with a small overpayment and designations on lines 29-32 around (also above) it
        # (the N.C. tax is figured here from the published rate and standard deduction so that the overpayment is a known small amount:
        # 60 with 4 x 25 designated - more than was overpaid - for even k, 140 for odd k)
        st_ = r.choice(['S', 'MFJ'])
        w_ = float(r.randint(40000, 90000))
        p = plain_persona(year, st_, w_, key=f'dirncover:{seed}:{k}', nc=True)
        nctax_ = round(max(0.0, w_ - float(_stat.amount('nc_standard_deduction', year, st_))) * float(_stat.amount('nc_rate', year, st_)))
        for d in p.w2:
            d['box_17'] = float(nctax_ + (60 if k % 2 == 0 else 140))
        p.ncv['refund_contrib'] = 25.0
        out.append(('F8o', p))
        # joint N.C. return with N.C. tax withheld on jointly owned interest / dividend statements
        p = plain_persona(year, 'MFJ', [round(r.uniform(30000, 70000), 2), round(r.uniform(20000, 50000), 2)], key=f'dirncjoint:{seed}:{k}', deps_ctc=r.choice([0, 1]), nc=True,
                          n_int=1, ints=[{'box_1': round(r.uniform(100, 1400), 2), 'box_3': 0.0, 'box_4': 0.0, 'box_6': 0.0, 'box_8': 0.0, 'box_2': 0.0,
                                          'box_17_1': round(r.uniform(5, 60), 2), 'box_15_1': 'NC', 'belongs_to': r.choice(['both', 'both', 'spouse'])}],
                          n_div=1, divs=[{'box_1a': round(r.uniform(100, 1300), 2), 'box_1b': 0.0, 'box_2a': 0.0, 'box_4': 0.0, 'box_5': 0.0, 'box_7': 0.0,
                                          'box_16_1': round(r.uniform(5, 40), 2), 'box_14_1': 'NC', 'belongs_to': r.choice(['both', 'taxpayer'])}])
        # ... and a pension statement with N.C. tax withheld on both of its state rows, an interest statement likewise
        p.n_1099r = 1
        p.f1099r = [{'box_1': 9000.0, 'box_2a': 9000.0, 'box_4': 0.0, 'ira': False, 'belongs_to': r.choice(['taxpayer', 'spouse']), 'box_14_1': round(r.uniform(10, 80), 2), 'box_14_1_state': 'NC',
                     'box_14_2': round(r.uniform(10, 80), 2), 'box_14_2_state': 'NC'}]
        p.ints[0].update({'box_17_2': round(r.uniform(3, 30), 2), 'box_15_2': 'NC'})
        out.append(('F8j', p))
        # married filing separately, N.C.: a statement marked as the spouse's still carries N.C. tax withheld (line 20b)
        p = plain_persona(year, 'MFS', [round(r.uniform(40000, 70000), 2), round(r.uniform(8000, 20000), 2)], key=f'dirncmfs:{seed}:{k}', nc=True,
                          n_int=1, ints=[{'box_1': round(r.uniform(100, 900), 2), 'box_3': 0.0, 'box_4': 0.0, 'box_6': 0.0, 'box_8': 0.0, 'box_2': 0.0,
                                          'box_17_1': round(r.uniform(5, 40), 2), 'box_15_1': 'NC', 'belongs_to': 'spouse'}])
        p.w2[1]['belongs_to'] = 'spouse'
        out.append(('F8m', p))
        # N.C. itemized deductions equal to the N.C. standard deduction to the dollar (the standard deduction is taken; no Schedule A)
        st_ = r.choice(['S', 'MFJ', 'HOH'])
        ncstd = _stat.amount('nc_standard_deduction', year, st_)
        p = plain_persona(year, st_, round(r.uniform(50000, 90000), 2), key=f'dirnceq:{seed}:{k}', deps_odc=1 if st_ == 'HOH' else 0, nc=True, n_1098=1,
                          f1098=[{'box_1': float(ncstd - 2750), 'box_6': 0.0, 'box_4': 0.0, 'box_5': 0.0}])
        p.sa['state_local_real_estate_taxes'] = 2750.0
        p.ncv['try_itemizing'] = True
        out.append(('F8q', p))
        if year == 2021:
            # 2021 only: advance child tax credit payments above the credit for the qualifying children but below the total with the
            # credit for other dependents (Schedule 8812 lines 14b-14i), and well above it (Part III, additional tax)
            for u6, adv in ((0, 3250.0), (1, 3850.0), (1, round(r.uniform(4200, 6000), 2))):
                st_ = r.choice(['HOH', 'MFJ', 'S'])
                p = plain_persona(year, st_, round(r.uniform(40000, 90000), 2), key=f'diradv{u6}{int(adv)}:{seed}:{k}', deps_ctc=1, deps_odc=1)
                p.n_under6 = u6
                p.advance_ctc = adv
                out.append(('F1a', p))
            # ... with Letter 6419 counting more children than the return claims and an income low enough for the repayment
            # protection of Part III (lines 33-40; the additional tax is "zero or less -> 0")
            for st_, wages_ in (('MFJ', round(r.uniform(54500, 59500), 2)), ('HOH', round(r.uniform(48500, 49900), 2))):
                p = plain_persona(year, st_, wages_, key=f'dirletter{st_}:{seed}:{k}', deps_ctc=1, deps_odc=1)
                p.n_under6 = r.choice([0, 1])
                p.advance_ctc = round(r.uniform(4300, 5600), 2)
                p.letter_children = 3
                out.append(('F1a', p))
        # capital gain distributions without any qualified dividends (the worksheet is still the way to figure the tax)
        st_ = r.choice(['S', 'MFJ', 'HOH'])
        p = plain_persona(year, st_, round(r.uniform(40000, 90000), 2), key=f'dircgd:{seed}:{k}', deps_odc=1 if st_ == 'HOH' else 0, n_div=1,
                          divs=[{'box_1a': round(r.uniform(100, 1400), 2), 'box_1b': 0.0, 'box_2a': round(r.uniform(500, 9000), 2), 'box_4': 0.0, 'box_5': 0.0, 'box_7': 0.0, 'box_16_1': 0.0}])
        out.append(('F2c', p))
        # joint return with very little taxable income and a foreign tax credit (Schedule 3) larger than the tax: credits floor the tax at zero
        base_ = _stat.amount('standard_deduction', year, 'MFJ')
        p = plain_persona(year, 'MFJ', [round(base_ + r.uniform(200, 2500), 2)], key=f'dirftc:{seed}:{k}', n_int=1,
                          ints=[{'box_1': round(r.uniform(200, 900), 2), 'box_3': 0.0, 'box_4': 0.0, 'box_6': round(r.uniform(250, 590), 2), 'box_8': 0.0, 'box_2': 0.0}])
        out.append(('F2f', p))
        # a few dollars of qualified dividends next to ordinary income in the 15 % capital-gain zone: worksheet lines 23 and 24 fall
        # into the same or neighbouring table rows and "the smaller of" them decides
        st_ = r.choice(['S', 'MFJ', 'HOH'])
        # (ordinary taxable income one dollar into a $50 table row, the dividends small enough to stay in that row)
        p = plain_persona(year, st_, float(_stat.amount('standard_deduction', year, st_) + 50 * r.randint(1300, 1900) + 1), key=f'dirtinyqd:{seed}:{k}', deps_odc=1 if st_ == 'HOH' else 0, n_div=1,
                          divs=[{'box_1a': round(r.uniform(5, 40), 2), 'box_1b': 0.0, 'box_2a': 0.0, 'box_4': 0.0, 'box_5': 0.0, 'box_7': 0.0, 'box_16_1': 0.0}])
        p.divs[0]['box_1b'] = p.divs[0]['box_1a']
        out.append(('F2t', p))
        # a taxable state refund on Schedule 1 line 1 and an N.C. return with deductions from AGI but nothing entered for the refund
        p = plain_persona(year, r.choice(['S', 'MFJ']), round(r.uniform(50000, 90000), 2), key=f'dirrefund:{seed}:{k}', nc=True, s1_income=True,
                          overrides={'nc_d-400_ss.state_local_refund': '0'})
        p.state_local_adjust = True
        p.s1['state_local_income_tax'] = round(r.uniform(100, 900), 2)
        p.ncv['deductions_from_agi'] = True
        out.append(('F8g', p))
        # a filer who goes through Schedule A ("itemize = yes") but ends up well below the standard deduction and takes that
        st_ = r.choice(['S', 'MFJ', 'HOH'])
        p = plain_persona(year, st_, round(r.uniform(40000, 90000), 2), key=f'diritemless:{seed}:{k}', deps_odc=1 if st_ == 'HOH' else 0, itemize=True)
        p.sa['state_local_real_estate_taxes'] = round(r.uniform(500, 2500), 2)
        p.sa['charitable_cash_check'] = round(r.uniform(100, 900), 2)
        out.append(('F3l', p))
        # a real itemizer whose non-cash gifts sit just under the $500 above which Form 8283 is needed - and who does not file one
        st_ = r.choice(['S', 'HOH'])
        p = plain_persona(year, st_, round(r.uniform(70000, 120000), 2), key=f'dir8283:{seed}:{k}', deps_odc=1 if st_ == 'HOH' else 0, itemize=True, n_1098=1,
                          f1098=[{'box_1': round(r.uniform(16000, 22000), 2), 'box_6': 0.0, 'box_4': 0.0, 'box_5': 0.0}])
        p.sa['state_local_real_estate_taxes'] = 4000.0
        p.sa['charitable_other_than_cash_check'] = 499.5
        p.filing_8283 = False
        p.overrides['1040_sa.filling_8283'] = 'no'
        out.append(('F3n', p))
        # ... and one with nothing at all to put on Schedule A (no state tax withheld, no mortgage, no gifts): the total is 0.00
        p = plain_persona(year, 'S', round(r.uniform(40000, 90000), 2), key=f'diritemzero:{seed}:{k}', itemize=True)
        for d in p.w2:
            d['box_17'] = 0.0
            d['box_19'] = 0.0
        out.append(('F3z', p))
        # joint return: a pension of one spouse numbered BEFORE an IRA distribution of the other spouse that was rolled over in full,
        # while the first spouse's own (small) IRA distribution is fully taxable - the spouses give different answers
        p = plain_persona(year, 'MFJ', [round(r.uniform(40000, 80000), 2), round(r.uniform(20000, 50000), 2)], key=f'dirirasp:{seed}:{k}')
        p.n_1099r = 3
        p.f1099r = [{'box_1': round(r.uniform(5000, 15000), 2), 'box_2a': 0.0, 'box_4': 0.0, 'ira': False, 'belongs_to': 'taxpayer', 'box_14_1': 0.0},
                    {'box_1': round(r.uniform(20000, 40000), 2), 'box_2a': 0.0, 'box_4': 0.0, 'ira': True, 'belongs_to': 'spouse', 'box_14_1': 0.0},
                    {'box_1': round(r.uniform(500, 3000), 2), 'box_2a': 0.0, 'box_4': 0.0, 'ira': True, 'belongs_to': 'taxpayer', 'box_14_1': 0.0}]
        for d in p.f1099r:
            d['box_2a'] = d['box_1']
        p.ira_mode = 'plain'
        p.ira_modes = {'you': 'plain', 'spouse': 'rollover'}
        out.append(('F9s', p))
        # Schedule 1 "other income" with a described item next to a mortgage interest refund (two items on line 8z)
        p = plain_persona(year, r.choice(['S', 'MFJ']), round(r.uniform(50000, 90000), 2), key=f'dirotherinc:{seed}:{k}', n_1098=1,
                          f1098=[{'box_1': 5000.0, 'box_6': 0.0, 'box_4': round(r.uniform(50, 400), 2), 'box_5': 0.0}], s1_income=True)
        p.need_other_income = True
        p.s1['other_income_amount'] = round(r.uniform(500, 3000), 2)
        out.append(('F10o', p))
        # little earned income and investment income above the earned-income-credit ceiling (the credit is ruled out by that alone)
        p = plain_persona(year, 'S', round(r.uniform(2000, 6000), 2), key=f'direicinv:{seed}:{k}', n_int=1,
                          ints=[{'box_1': round(r.uniform(12000, 15000), 2), 'box_3': 0.0, 'box_4': 0.0, 'box_6': 0.0, 'box_8': 0.0, 'box_2': 0.0}])
        out.append(('F2e', p))
        # the same kind of filer with an N.C. return and income below the N.C. standard deduction: N.C. taxable income and tax are
        # zero, the questions of the D-400 (tax credits, ...) are asked all the same   (no random draw: later families do not shift)
        cap_ = float(_stat.amount('eic_investment_cap', year, 'S'))
        p = plain_persona(year, 'S', 300.0 + 10.0 * k, key=f'dirnczero:{seed}:{k}', n_int=1, nc=True,
                          ints=[{'box_1': cap_ + 200.0, 'box_3': 0.0, 'box_4': 0.0, 'box_6': 0.0, 'box_8': 0.0, 'box_2': 0.0, 'box_17_1': 0.0}])
        out.append(('F8z', p))
        # two employers, one paying above 200,000 (and withholding the additional 0.9 %) and one far below: Form 8959 with an excess
        p = plain_persona(year, 'S', [round(r.uniform(205000, 230000), 2), round(r.uniform(15000, 40000), 2)], key=f'dirtwoemp:{seed}:{k}')
        for d in p.w2:
            d['box_6'] = round(d['box_5'] * 0.0145 + max(0.0, d['box_5'] - 200000.0) * 0.009 + 40.0, 2)
        out.append(('F6t', p))
        # plain (fully taxable) IRA distributions of both spouses
        p = plain_persona(year, 'MFJ', [round(r.uniform(40000, 90000), 2), round(r.uniform(30000, 60000), 2)], key=f'dirira:{seed}:{k}')
        p.n_1099r = 2
        p.f1099r = [{'box_1': round(r.uniform(2000, 9000), 2), 'box_2a': 0.0, 'box_4': 0.0, 'ira': True, 'belongs_to': who, 'box_14_1': 0.0} for who in ('taxpayer', 'spouse')]
        for d in p.f1099r:
            d['box_2a'] = d['box_1']
        p.ira_mode = 'plain'
        out.append(('F5p', p))
        # an IRA distribution and a pension on two Forms 1099-R, in both orders
        for order in (0, 1):
            p = plain_persona(year, r.choice(['S', 'MFJ']), round(r.uniform(50000, 90000), 2), key=f'dirmix{order}:{seed}:{k}')
            ira = {'box_1': round(r.uniform(1000, 6000), 2), 'box_2a': 0.0, 'box_4': 0.0, 'ira': True, 'belongs_to': 'taxpayer', 'box_14_1': 0.0}
            pen = {'box_1': round(r.uniform(3000, 20000), 2), 'box_2a': 0.0, 'box_4': round(r.choice([0, 300.0]), 2), 'ira': False, 'belongs_to': 'taxpayer', 'box_14_1': 0.0}
            ira['box_2a'], pen['box_2a'] = ira['box_1'], pen['box_1']
            p.n_1099r = 2
            p.f1099r = [ira, pen] if order == 0 else [pen, ira]
            p.ira_mode = 'plain'
            out.append(('F9m', p))
    return out


