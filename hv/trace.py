"""E1 - boundary tracing.  Harness-side wrappers installed at run time on the
real classes of the working tree; they emit a sequence-numbered event log.
No source edit is involved; `with Tracer() as t:` patches, `__exit__` restores.

Event tuples (seq is the list index):
  ('ATTEMPT_BEGIN', line)
  ('ATTEMPT_END', line, outcome, detail)   outcome in value|unmet_line|missing_input|
                                            missing_spec|unimplemented|invalid_input|error
  ('READ_LINE', key, hit, value, attempt)
  ('STORE_LINE', key, value, attempt)
  ('READ_INPUT', key, outcome, value, provided, raw, attempt)
  ('STORE_INPUT', key, raw)
  ('UNIMPL', line)
  ('THRESHOLD', form, name, key, value)
  ('DEP', tracker_id, op, dependency, dependent)
  ('FORM_NEW', form_name, instance, has_solver)
  ('PROMPT', input, needed_by, answer, supplied)     (emitted by the harness prompt)
"""
from hv import hx

F = hx.fields
I = hx.inputs
V = hx.values
FM = hx.form
S = hx.solver


class WorkCeiling(Exception):
    """Raised by the wrapper when the logical work ceiling is exceeded."""


class Tracer(object):
    def __init__(self, ceiling=None, record_reads=True, tick_ceiling=400000):
        self.tick_ceiling = tick_ceiling   # logical bound on has_met()/has_unmet() polls (the solver's main loop)
        self.ticks = 0
        self.events = []
        self.stack = []          # current attempts (field objects), innermost last
        self._saved = []
        self.ceiling = ceiling
        self.n_attempts = 0
        self.record_reads = record_reads
        self.only_value_store = None   # if set, only this ValueStore is traced

    # ------------------------------------------------------------------
    def emit(self, *ev):
        self.events.append(ev)

    def current(self):
        return self.stack[-1].name() if self.stack else None

    _ABSENT = object()

    def _patch(self, owner, name, new):
        if isinstance(owner, type):
            old = owner.__dict__.get(name, self._ABSENT)     # inherited: remove our wrapper again on exit
        else:
            old = getattr(owner, name)
        self._saved.append((owner, name, old))
        setattr(owner, name, new)

    def __enter__(self):
        t = self

        # ---- line attempts
        # every line class of the module that defines its own value() (whatever the class layout of the tree under test is)
        line_classes = [c for c in vars(F).values() if isinstance(c, type) and issubclass(c, F.Field) and 'value' in c.__dict__ and c is not F.Field]
        line_classes.sort(key=lambda c: len(c.__mro__))
        for cls in line_classes:
            orig = cls.__dict__['value']

            def value(self, inputs, values, _orig=orig):
                if t.stack and t.stack[-1] is self:
                    return _orig(self, inputs, values)
                t.n_attempts += 1
                if t.ceiling is not None and t.n_attempts > t.ceiling:
                    raise WorkCeiling(f'more than {t.ceiling} line evaluations')
                name = self.name()
                t.stack.append(self)
                t.emit('ATTEMPT_BEGIN', name)
                try:
                    r = _orig(self, inputs, values)
                except V.UnmetDependency as e:
                    t.stack.pop()
                    t.emit('ATTEMPT_END', name, 'unmet_line', e.dependency)
                    raise
                except I.MissingInput as e:
                    t.stack.pop()
                    t.emit('ATTEMPT_END', name, 'missing_input', e.input_name)
                    raise
                except I.MissingInputSpecification as e:
                    t.stack.pop()
                    t.emit('ATTEMPT_END', name, 'missing_spec', e.input_name)
                    raise
                except F.FieldNotImplemented as e:
                    t.stack.pop()
                    t.emit('ATTEMPT_END', name, 'unimplemented', e.field_name)
                    raise
                except I.InvalidInput as e:
                    t.stack.pop()
                    t.emit('ATTEMPT_END', name, 'invalid_input', e.input_name)
                    raise
                except BaseException as e:
                    t.stack.pop()
                    t.emit('ATTEMPT_END', name, 'error', f'{type(e).__name__}: {e}')
                    raise
                t.stack.pop()
                t.emit('ATTEMPT_END', name, 'value', r)
                return r
            self._patch(cls, 'value', value)

        # ---- value store
        og, os_ = V.ValueStore.__getitem__, V.ValueStore.__setitem__

        def vget(self, key):
            if t.only_value_store is not None and self is not t.only_value_store:
                return og(self, key)
            try:
                r = og(self, key)
            except V.UnmetDependency:
                if t.record_reads:
                    t.emit('READ_LINE', key, False, None, t.current())
                raise
            if t.record_reads:
                t.emit('READ_LINE', key, True, r, t.current())
            return r

        def vset(self, key, value):
            if t.only_value_store is None or self is t.only_value_store:
                t.emit('STORE_LINE', key, value, t.current())
            return os_(self, key, value)
        self._patch(V.ValueStore, '__getitem__', vget)
        self._patch(V.ValueStore, '__setitem__', vset)

        # ---- input store
        ig, is_ = I.InputStore.__getitem__, I.InputStore.__setitem__

        def iget(self, key):
            provided, raw = ground_truth(self, key)
            try:
                r = ig(self, key)
            except I.MissingInput:
                t.emit('READ_INPUT', key, 'missing', None, provided, raw, t.current())
                raise
            except I.MissingInputSpecification:
                t.emit('READ_INPUT', key, 'nospec', None, provided, raw, t.current())
                raise
            except I.InvalidInput:
                t.emit('READ_INPUT', key, 'invalid', None, provided, raw, t.current())
                raise
            t.emit('READ_INPUT', key, 'value', r, provided, raw, t.current())
            return r

        def iset(self, key, value):
            t.emit('STORE_INPUT', key, value)
            return is_(self, key, value)
        self._patch(I.InputStore, '__getitem__', iget)
        self._patch(I.InputStore, '__setitem__', iset)

        # ---- not_implemented / threshold / form creation
        oni = F.Field.not_implemented

        def not_impl(self, detailed=None):
            t.emit('UNIMPL', self.name())
            return oni(self, detailed=detailed)
        self._patch(F.Field, 'not_implemented', not_impl)

        oth = FM.Form.threshold

        def threshold(self, name, requested_key=None):
            r = oth(self, name, requested_key=requested_key)
            t.emit('THRESHOLD', self.name(), name, getattr(requested_key, 'name', requested_key), r)
            return r
        self._patch(FM.Form, 'threshold', threshold)

        ofi = FM.Form.__init__

        def form_init(self, child_cls, *a, **kw):
            r = ofi(self, child_cls, *a, **kw)
            t.emit('FORM_NEW', self._name, self._instance, self._solver is not None)
            return r
        self._patch(FM.Form, '__init__', form_init)

        # ---- dependency tracker
        DT = S.DependencyTracker
        oau, om, omd = DT.add_unmet, DT.meet, DT.met_dependents

        def add_unmet(self, dependency_name, dependent):
            t.emit('DEP', id(self), 'add_unmet', dependency_name, _nm(dependent))
            return oau(self, dependency_name, dependent)

        def meet(self, dependency_name):
            t.emit('DEP', id(self), 'meet', dependency_name, None)
            return om(self, dependency_name)

        def met_dependents(self):
            for d in omd(self):
                t.emit('DEP', id(self), 'yield', None, _nm(d))
                yield d
        ohm, ohu = DT.has_met, DT.has_unmet

        def has_met(self):
            t.ticks += 1
            if t.tick_ceiling is not None and t.ticks > t.tick_ceiling:
                raise WorkCeiling(f'the solver polled its dependency bookkeeping more than {t.tick_ceiling} times without finishing')
            return ohm(self)

        def has_unmet(self):
            t.ticks += 1
            if t.tick_ceiling is not None and t.ticks > t.tick_ceiling:
                raise WorkCeiling(f'the solver polled its dependency bookkeeping more than {t.tick_ceiling} times without finishing')
            return ohu(self)
        self._patch(DT, 'has_met', has_met)
        self._patch(DT, 'has_unmet', has_unmet)
        self._patch(DT, 'add_unmet', add_unmet)
        self._patch(DT, 'meet', meet)
        self._patch(DT, 'met_dependents', met_dependents)
        return self

    def __exit__(self, *exc):
        for owner, name, old in reversed(self._saved):
            if old is self._ABSENT:
                delattr(owner, name)
            else:
                setattr(owner, name, old)
        self._saved = []
        return False


def _nm(x):
    try:
        return x.name()
    except Exception:
        return repr(x)


def ground_truth(store, key):
    """(provided, raw text) read by the harness directly from the ConfigParser,
    without going through the code under test."""
    try:
        section, base = key.split('.')
    except ValueError:
        return False, None
    cp = store.config
    try:
        if cp.has_section(section) and base.lower() in cp._sections[section]:
            return True, cp.get(section, base, raw=True)
    except Exception:
        pass
    return False, None


# ----------------------------------------------------------------------
class TraceView(object):
    """Derived facts every monitor needs, computed once from the event list."""

    def __init__(self, events):
        self.events = events
        self.attempts = {}        # line -> list of (outcome, detail)
        self.stored = {}          # key -> list of values (in order)
        self.reads = {}           # attempt line -> list of keys read (in-attempt)
        self.read_keys = set()    # all keys read inside an attempt
        self.unimpl = set()       # lines whose attempt ended unimplemented
        self.prompts = []
        self.input_reads = []     # (key, outcome, value, provided, raw, attempt)
        self.forms_new = []
        self.thresholds = []
        for ev in events:
            k = ev[0]
            if k == 'ATTEMPT_END':
                self.attempts.setdefault(ev[1], []).append((ev[2], ev[3]))
                if ev[2] == 'unimplemented':
                    self.unimpl.add(ev[1])
            elif k == 'STORE_LINE':
                self.stored.setdefault(ev[1], []).append(ev[2])
            elif k == 'READ_LINE':
                if ev[4] is not None:
                    self.reads.setdefault(ev[4], []).append(ev[1])
                    self.read_keys.add(ev[1])
            elif k == 'READ_INPUT':
                self.input_reads.append(ev[1:])
            elif k == 'PROMPT':
                self.prompts.append(ev[1:])
            elif k == 'FORM_NEW':
                self.forms_new.append(ev[1:])
            elif k == 'THRESHOLD':
                self.thresholds.append(ev[1:])

    def last_outcome(self, line):
        a = self.attempts.get(line)
        return a[-1] if a else None

    def counts(self):
        c = {}
        for ev in self.events:
            c[ev[0]] = c.get(ev[0], 0) + 1
        return c
