"""E4 - template parser (stdlib only: re, zlib, xml.etree).

parse(path) -> Template with .fields: {full field name: TField} in document
order (TField.order).  IRS templates are XFA packets embedded in the PDF; NC
templates are plain-object AcroForms.  Independent of the repository's code:
it reads only the bundled PDF files."""
import re
import zlib
import xml.etree.ElementTree as ET

_cache = {}


class TField(object):
    def __init__(self, name, kind):
        self.name = name
        self.kind = kind            # 'text' | 'button' | 'choice' | 'other'
        self.on_values = []         # export values meaning "on" (buttons)
        self.options = None         # choice list
        self.max_len = None
        self.speak = ''
        self.order = 0
        self.page = None
        self.group = None           # exclusive-group key, if any
        self.rect = None            # (x0, y0, x1, y1) of the widget (AcroForm templates)
        self.page_ref = None        # object number of the page the widget sits on (AcroForm templates)
        self.short = name

    def __repr__(self):
        return f'<TField {self.name} {self.kind} on={self.on_values} max={self.max_len} speak={self.speak[:40]!r}>'


class Template(object):
    def __init__(self, path, flavour):
        self.path = path
        self.flavour = flavour
        self.fields = {}
        self.sequence_no = None
        self.text = ''


def _objects(data):
    for m in re.finditer(rb'(\d+)\s+(\d+)\s+obj(.*?)endobj', data, re.S):
        yield int(m.group(1)), m.group(3)


def _stream(body):
    hdr, rest = body.split(b'stream', 1)
    rest = rest.lstrip(b'\r\n')
    end = rest.rfind(b'endstream')
    raw = rest[:end]
    if b'FlateDecode' in hdr:
        try:
            return hdr, zlib.decompress(raw)
        except zlib.error:
            return hdr, zlib.decompressobj().decompress(raw)
    return hdr, raw


def parse(path):
    if path in _cache:
        return _cache[path]
    data = open(path, 'rb').read()
    tpl = None
    for num, body in _objects(data):
        if b'stream' in body and b'EmbeddedFile' in body.split(b'stream', 1)[0]:
            hdr, x = _stream(body)
            if b'<template' in x[:400]:
                tpl = _parse_xfa(path, x.decode('utf-8', 'replace'))
                break
    if tpl is None:
        tpl = _parse_acro(path, data)
    _cache[path] = tpl
    return tpl


# ----------------------------------------------------------------------
def _local(tag):
    return tag.split('}', 1)[1] if '}' in tag else tag


def _text_of(el):
    return ''.join(el.itertext())


def _parse_xfa(path, xml):
    tpl = Template(path, 'xfa')
    root = ET.fromstring(xml.strip())
    order = [0]
    alltext = []

    def walk(node, prefix, page):
        # children in SOM scope: unnamed subforms/areas are transparent
        def scope_children(n):
            for ch in list(n):
                t = _local(ch.tag)
                if t in ('subform', 'area', 'subformSet') and not ch.get('name'):
                    for x in scope_children(ch):
                        yield x
                elif t in ('subform', 'field', 'exclGroup', 'draw', 'area'):
                    yield ch
        counts = {}
        for ch in scope_children(node):
            t = _local(ch.tag)
            name = ch.get('name')
            if not name:
                continue
            idx = counts.get(name, 0)
            counts[name] = idx + 1
            full = f'{prefix}{name}[{idx}]'
            if t == 'draw':
                txt = ' '.join(_text_of(ch).split())
                if txt:
                    alltext.append(txt)
                continue
            pg = page
            if t == 'subform' and re.match(r'^Page\d+$', name):
                pg = int(name[4:])
            if t == 'field':
                order[0] += 1
                tpl.fields[full] = _xfa_field(ch, full, order[0], pg, None)
            elif t == 'exclGroup':
                # radio group: members are fields inside
                k = 0
                for f in ch.iter():
                    if _local(f.tag) == 'field':
                        order[0] += 1
                        fn = f'{full}.{f.get("name")}[0]' if f.get('name') else f'{full}#{k}'
                        tpl.fields[fn] = _xfa_field(f, fn, order[0], pg, full)
                        k += 1
                order[0] += 1
                tf = TField(full, 'button')
                tf.order, tf.page, tf.group = order[0], pg, full
                tf.on_values = [v for f in tpl.fields.values() if f.group == full and f is not tf for v in f.on_values]
                tpl.fields[full] = tf
            else:
                walk(ch, full + '.', pg)
    walk(root, '', None)
    # same name, different index, check buttons => an exclusive group by convention of the IRS forms
    byshort = {}
    for f in tpl.fields.values():
        if f.kind == 'button' and f.group is None:
            byshort.setdefault(re.sub(r'\[\d+\]$', '', f.name), []).append(f)
    for k, fs in byshort.items():
        if len(fs) > 1:
            for f in fs:
                f.group = k
    tpl.text = '\n'.join(alltext)
    m = re.search(r'Attachment\s+Sequence\s+No\.?\s*([0-9]+[A-Z]?)', tpl.text)
    if m:
        tpl.sequence_no = m.group(1)
    return tpl


def _xfa_field(el, full, order, page, group):
    kind = 'other'
    maxlen = None
    for ui in el:
        if _local(ui.tag) == 'ui':
            for w in ui:
                t = _local(w.tag)
                if t == 'textEdit':
                    kind = 'text'
                    for c in w:
                        if _local(c.tag) == 'comb' and c.get('numberOfCells'):
                            maxlen = int(c.get('numberOfCells'))
                elif t == 'checkButton':
                    kind = 'button'
                elif t == 'choiceList':
                    kind = 'choice'
                elif t in ('numericEdit', 'dateTimeEdit'):
                    kind = 'text'
                elif t in ('button', 'signature', 'barcode', 'imageEdit'):
                    kind = 'other'
    tf = TField(full, kind)
    tf.order, tf.page, tf.group = order, page, group
    for v in el:
        t = _local(v.tag)
        if t == 'value':
            for tx in v:
                if _local(tx.tag) == 'text' and tx.get('maxChars'):
                    mc = int(tx.get('maxChars'))
                    if mc > 0:
                        maxlen = mc if maxlen is None else min(maxlen, mc)
        elif t == 'items':
            items = [(_text_of(x) or '').strip() for x in v]
            if kind == 'button' and items:
                tf.on_values = [items[0]]
            elif kind == 'choice':
                if tf.options is None or v.get('save') == '1':
                    tf.options = items
        elif t == 'assist':
            for a in v:
                if _local(a.tag) in ('speak', 'toolTip'):
                    s = ' '.join(_text_of(a).split())
                    if s and (not tf.speak or _local(a.tag) == 'speak'):
                        tf.speak = s
    tf.max_len = maxlen
    return tf


# ----------------------------------------------------------------------
def _pdf_string(s):
    """decode a PDF literal string body (bytes without the outer parens)"""
    out = bytearray()
    i = 0
    while i < len(s):
        c = s[i:i + 1]
        if c == b'\\' and i + 1 < len(s):
            n = s[i + 1:i + 2]
            mp = {b'n': b'\n', b'r': b'\r', b't': b'\t', b'b': b'\b', b'f': b'\f', b'(': b'(', b')': b')', b'\\': b'\\'}
            if n in mp:
                out += mp[n]
                i += 2
                continue
            m = re.match(rb'[0-7]{1,3}', s[i + 1:i + 4])
            if m:
                out.append(int(m.group(0), 8) & 0xff)
                i += 1 + len(m.group(0))
                continue
            i += 1
            continue
        out += c
        i += 1
    return out.decode('latin-1')


def _find_string(d, key):
    m = re.search(rb'/' + key + rb'\s*\(', d)
    if not m:
        return None
    i = m.end()
    depth, j = 1, i
    while j < len(d) and depth:
        ch = d[j:j + 1]
        if ch == b'\\':
            j += 2
            continue
        if ch == b'(':
            depth += 1
        elif ch == b')':
            depth -= 1
        j += 1
    return _pdf_string(d[i:j - 1])


def _parse_acro(path, data):
    tpl = Template(path, 'acroform')
    objs = {}
    for num, body in _objects(data):
        objs[num] = body.split(b'stream', 1)[0] if b'stream' in body else body
    order = 0
    parents = {}
    for num, d in objs.items():
        m = re.search(rb'/Kids\s*\[(.*?)\]', d, re.S)
        if m:
            for k in re.findall(rb'(\d+)\s+\d+\s+R', m.group(1)):
                parents[int(k)] = num

    def full_name(num):
        parts = []
        seen = set()
        while num is not None and num not in seen:
            seen.add(num)
            t = _find_string(objs[num], b'T')
            if t is not None:
                parts.append(t)
            num = parents.get(num)
        return '.'.join(reversed(parts))

    def inherited(num, key):
        seen = set()
        while num is not None and num not in seen:
            seen.add(num)
            m = re.search(rb'/' + key + rb'\s*/(\w+)', objs[num])
            if m:
                return m.group(1).decode()
            num = parents.get(num)
        return None

    for num in sorted(objs):
        d = objs[num]
        if _find_string(d, b'T') is None:
            continue
        mk = re.search(rb'/Kids\s*\[(.*?)\]', d, re.S)
        if mk and any(_find_string(objs.get(int(k), b''), b'T') is not None for k in re.findall(rb'(\d+)\s+\d+\s+R', mk.group(1))):
            continue        # a non-terminal node: its kids are fields themselves
        ft = inherited(num, b'FT')
        if ft is None:
            continue
        name = full_name(num)
        order += 1
        kind = {'Tx': 'text', 'Btn': 'button', 'Ch': 'choice'}.get(ft, 'other')
        tf = tpl.fields.get(name) or TField(name, kind)
        tf.order = tf.order or order
        m = re.search(rb'/MaxLen\s+(\d+)', d)
        if m:
            tf.max_len = int(m.group(1))
        mr = re.search(rb'/Rect\s*\[\s*([-\d.]+)\s+([-\d.]+)\s+([-\d.]+)\s+([-\d.]+)\s*\]', d)
        if mr:
            tf.rect = tuple(float(x) for x in mr.groups())
        mp = re.search(rb'/P\s+(\d+)\s+\d+\s+R', d)
        if mp:
            tf.page_ref = int(mp.group(1))
        if kind == 'button':
            ff = re.search(rb'/Ff\s+(\d+)', d)
            if ff and int(ff.group(1)) & (1 << 16):
                tf.kind = 'other'       # push button
            m = re.search(rb'/AP\s*<<(.*)', d, re.S)
            if m:
                n = re.search(rb'/N\s*<<(.*?)>>', m.group(1), re.S)
                if n:
                    for st in re.findall(rb'/([^\s/<>\[\]()]+)\s+\d+\s+\d+\s+R', n.group(1)):
                        s = st.decode('latin-1')
                        if s != 'Off' and s not in tf.on_values:
                            tf.on_values.append(s)
        if kind == 'choice':
            m = re.search(rb'/Opt\s+(\d+)\s+\d+\s+R', d)
            optsrc = objs.get(int(m.group(1))) if m else None
            if optsrc is None:
                m2 = re.search(rb'/Opt\s*\[(.*?)\]\s*/', d, re.S)
                optsrc = m2.group(1) if m2 else None
            if optsrc is not None:
                tf.options = _all_strings(optsrc)
        tpl.fields[name] = tf
    return tpl


def _all_strings(d):
    out = []
    i = 0
    while True:
        i = d.find(b'(', i)
        if i < 0:
            break
        depth, j = 1, i + 1
        while j < len(d) and depth:
            ch = d[j:j + 1]
            if ch == b'\\':
                j += 2
                continue
            if ch == b'(':
                depth += 1
            elif ch == b')':
                depth -= 1
            j += 1
        out.append(_pdf_string(d[i + 1:j - 1]))
        i = j
    return out
