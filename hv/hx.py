"""Access helpers for the repository under test (imported from VERIF_REPO)."""
import importlib

from hv.common import import_habutax

habutax = import_habutax()
from habutax import fields, form, inputs, solver, values, pdf_fields, pdf_filler, enum as henum  # noqa: E402
from habutax import forms as hforms  # noqa: E402

YEARS = sorted(hforms.available_forms.keys())


def catalogue(year):
    return list(hforms.available_forms[year])


def form_map(year):
    return {f.form_name: f for f in catalogue(year)}


def instances_for(cls):
    """Allowed instances: valid_instances if declared; numbered copies 0..2 for
    input forms (w-2, 1099-*, 1098); None otherwise."""
    if hasattr(cls, 'valid_instances'):
        return list(cls.valid_instances)
    if issubclass(cls, form.InputForm):
        return ['0', '1', '2']
    return [None]


def status_enum(year):
    f = form_map(year)['1040']()
    for i in f.inputs():
        if i.base_name() == 'filing_status':
            return i.enum
    raise RuntimeError('no filing_status input on 1040')


def figure_tax_module(year):
    return importlib.import_module(f'habutax.forms.ty{year}.f1040_figure_tax')


def new_store(text=''):
    import configparser
    cp = configparser.ConfigParser()
    cp.read_string(text)
    return inputs.InputStore(cp)
