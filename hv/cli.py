"""E8 - CLI driver: runs habutax.main() in-process with argv, stdin prompts and
stdout replaced."""
import builtins
import contextlib
import io
import sys

from hv import hx


class CliResult(object):
    pass


def run_cli(argv, input_fn=None):
    """Run `habutax <argv>` in-process.  input_fn(prompt_text) -> str, or raises
    (KeyboardInterrupt / EOFError) to inject a fault."""
    r = CliResult()
    out, err = io.StringIO(), io.StringIO()
    saved_argv, saved_input = sys.argv, builtins.input
    sys.argv = ['habutax'] + list(argv)
    r.prompts = []

    def fake_input(prompt=''):
        r.prompts.append(prompt)
        if input_fn is None:
            raise EOFError('no stdin')
        return input_fn(prompt)
    builtins.input = fake_input

    class FakeStdin(io.TextIOBase):
        """A program that prompts by writing to stdout and reading a line from sys.stdin (instead of calling input()) meets the same
        user: what it wrote since the last read is the prompt; the end of input reads as '' - as it does on a real terminal."""
        pos = 0

        def readable(self):
            return True

        def isatty(self):
            return False

        def readline(self, *a):
            text = out.getvalue()
            prompt, FakeStdin.pos = text[FakeStdin.pos:], len(text)
            try:
                return fake_input(prompt.split('\n')[-1] if not prompt.strip() else prompt) + '\n'
            except EOFError:
                return ''

        def read(self, *a):
            return ''

        def __iter__(self):
            return iter(self.readline, '')
    saved_stdin = sys.stdin
    sys.stdin = FakeStdin()
    r.exc = None
    r.code = 0
    try:
        with contextlib.redirect_stdout(out), contextlib.redirect_stderr(err):
            try:
                hx.habutax.main()
            except SystemExit as e:
                r.code = e.code if isinstance(e.code, int) else (0 if e.code is None else 1)
            except BaseException as e:  # noqa
                r.exc = e
                r.code = 1
    finally:
        sys.argv, builtins.input = saved_argv, saved_input
        sys.stdin = saved_stdin
    r.stdout, r.stderr = out.getvalue(), err.getvalue()
    return r
