"""E8 - CLI driver: runs habutax.main() in-process with argv, stdin prompts and
stdout replaced."""
import builtins
import contextlib
import io
import sys

from hv import hx


class CliResult(object):
    pass


def run_cli(argv, input_fn=None):
    """Run `habutax <argv>` in-process.  input_fn(prompt_text) -> str, or raises
    (KeyboardInterrupt / EOFError) to inject a fault."""
    r = CliResult()
    out, err = io.StringIO(), io.StringIO()
    saved_argv, saved_input = sys.argv, builtins.input
    sys.argv = ['habutax'] + list(argv)
    r.prompts = []

    def fake_input(prompt=''):
        r.prompts.append(prompt)
        if input_fn is None:
            raise EOFError('no stdin')
        return input_fn(prompt)
    builtins.input = fake_input
    r.exc = None
    r.code = 0
    try:
        with contextlib.redirect_stdout(out), contextlib.redirect_stderr(err):
            try:
                hx.habutax.main()
            except SystemExit as e:
                r.code = e.code if isinstance(e.code, int) else (0 if e.code is None else 1)
            except BaseException as e:  # noqa
                r.exc = e
                r.code = 1
    finally:
        sys.argv, builtins.input = saved_argv, saved_input
    r.stdout, r.stderr = out.getvalue(), err.getvalue()
    return r
