"""E6 - published amounts, written from the Revenue Procedures and the form
instructions (Rev. Proc. 2020-45, 2021-45, 2022-38; Form 1040 instructions
2021-2023; Schedule 8812, Forms 8889/8959 instructions; NC D-400/D-401).
Nothing here is derived from the repository.  DESIGN.md Appendix A is the
human-readable version of the same data."""
from fractions import Fraction as F

S, MFJ, MFS, HOH, QSS = 'S', 'MFJ', 'MFS', 'HOH', 'QSS'
STATUSES = [S, MFJ, MFS, HOH, QSS]
YEARS = [2021, 2022, 2023]

# member-name of the repository's enumerations -> our status code
STATUS_BY_MEMBER = {
    'Single': S, 'MarriedFilingJointly': MFJ, 'MarriedFilingSeparately': MFS,
    'HeadOfHousehold': HOH, 'QualifyingWidowWidower': QSS, 'QualifyingSurvivingSpouse': QSS,
}

RATES = [10, 12, 22, 24, 32, 35, 37]

# upper edges of the 10/12/22/24/32/35 % brackets (Rev. Proc. section 3.01)
BRACKETS = {
    2021: {
        S:   [9950, 40525, 86375, 164925, 209425, 523600],
        MFJ: [19900, 81050, 172750, 329850, 418850, 628300],
        MFS: [9950, 40525, 86375, 164925, 209425, 314150],
        HOH: [14200, 54200, 86350, 164900, 209400, 523600],
    },
    2022: {
        S:   [10275, 41775, 89075, 170050, 215950, 539900],
        MFJ: [20550, 83550, 178150, 340100, 431900, 647850],
        MFS: [10275, 41775, 89075, 170050, 215950, 323925],
        HOH: [14650, 55900, 89050, 170050, 215950, 539900],
    },
    2023: {
        S:   [11000, 44725, 95375, 182100, 231250, 578125],
        MFJ: [22000, 89450, 190750, 364200, 462500, 693750],
        MFS: [11000, 44725, 95375, 182100, 231250, 346875],
        HOH: [15700, 59850, 95350, 182100, 231250, 578100],
    },
}
for _y in BRACKETS:
    BRACKETS[_y][QSS] = BRACKETS[_y][MFJ]

TOP_RATE = F(37, 100)
MAX_SUPPORTED = 10 ** 12


def bracket_tax(year, status, amount):
    """Exact tax (a Fraction, dollars) on `amount` (Fraction/int dollars)."""
    amount = F(amount)
    edges = BRACKETS[year][status]
    tax = F(0)
    lo = F(0)
    for rate, hi in zip(RATES, edges + [None]):
        if hi is None or amount <= hi:
            tax += F(rate, 100) * (amount - lo)
            return tax
        tax += F(rate, 100) * (F(hi) - lo)
        lo = F(hi)
    raise AssertionError


def table_row(amount):
    """IRS Tax Table row [lo, hi) containing a taxable income below 100000
    (Form 1040 instructions, 'Tax Table'): 0-5, 5-15, 15-25, then 25-dollar
    rows up to 3000, then 50-dollar rows."""
    a = F(amount)
    if a < 5:
        return 0, 5
    if a < 15:
        return 5, 15
    if a < 25:
        return 15, 25
    if a < 3000:
        lo = int(a // 25) * 25
        return lo, lo + 25
    lo = int(a // 50) * 50
    return lo, lo + 50


def round_half_up(x):
    x = F(x)
    return int((x * 2 + 1) // 2)


def reference_tax(year, status, amount):
    """(kind, value): below 100000 the whole-dollar table entry, otherwise the
    exact bracket tax as a Fraction."""
    a = F(amount)
    if a < 100000:
        lo, hi = table_row(a)
        return 'table', round_half_up(bracket_tax(year, status, F(lo + hi, 2)))
    return 'formula', bracket_tax(year, status, a)


# --------------------------------------------------------------------------
# status-indexed amounts (DESIGN.md Appendix A.2).  AMOUNTS[name][year] is
# either a number (all statuses) or {status: number}.
def _by(s=None, mfj=None, mfs=None, hoh=None, qss=None):
    return {S: s, MFJ: mfj, MFS: mfs, HOH: hoh, QSS: qss}


AMOUNTS = {
    'standard_deduction': {
        2021: _by(12550, 25100, 12550, 18800, 25100),
        2022: _by(12950, 25900, 12950, 19400, 25900),
        2023: _by(13850, 27700, 13850, 20800, 27700),
    },
    'capgain_0pct_ceiling': {
        2021: _by(40400, 80800, 40400, 54100, 80800),
        2022: _by(41675, 83350, 41675, 55800, 83350),
        2023: _by(44625, 89250, 44625, 59750, 89250),
    },
    'capgain_15pct_ceiling': {
        2021: _by(445850, 501600, 250800, 473750, 501600),
        2022: _by(459750, 517200, 258600, 488500, 517200),
        2023: _by(492300, 553850, 276900, 523050, 553850),
    },
    'amt_exemption': {
        2021: _by(73600, 114600, 57300, 73600, 114600),
        2022: _by(75900, 118100, 59050, 75900, 118100),
        2023: _by(81300, 126500, 63250, 81300, 126500),
    },
    'amt_phaseout_start': {
        2021: _by(523600, 1047200, 523600, 523600, 1047200),
        2022: _by(539900, 1079800, 539900, 539900, 1079800),
        2023: _by(578150, 1156300, 578150, 578150, 1156300),
    },
    'amt_28pct_point': {
        2021: _by(199900, 199900, 99950, 199900, 199900),
        2022: _by(206100, 206100, 103050, 206100, 206100),
        2023: _by(220700, 220700, 110350, 220700, 220700),
    },
    'qbi_simplified_limit': {
        2021: _by(164900, 329800, 164925, 164900, 164900),
        2022: _by(170050, 340100, 170050, 170050, 170050),
        2023: _by(182100, 364200, 182100, 182100, 182100),
    },
    'saver_credit_limit': {
        2021: _by(33000, 66000, 33000, 49500, 33000),
        2022: _by(34000, 68000, 34000, 51000, 34000),
        2023: _by(36500, 73000, 36500, 54750, 36500),
    },
    'ctc_phaseout_start': {
        2021: _by(200000, 400000, 200000, 200000, 200000),
        2022: _by(200000, 400000, 200000, 200000, 200000),
        2023: _by(200000, 400000, 200000, 200000, 200000),
    },
    'addl_medicare_threshold': {
        2021: _by(200000, 250000, 125000, 200000, 200000),
        2022: _by(200000, 250000, 125000, 200000, 200000),
        2023: _by(200000, 250000, 125000, 200000, 200000),
    },
    'salt_cap': {
        2021: _by(10000, 10000, 5000, 10000, 10000),
        2022: _by(10000, 10000, 5000, 10000, 10000),
        2023: _by(10000, 10000, 5000, 10000, 10000),
    },
    'form_1116_ceiling': {
        2021: _by(300, 600, 300, 300, 300),
        2022: _by(300, 600, 300, 300, 300),
        2023: _by(300, 600, 300, 300, 300),
    },
    'nc_standard_deduction': {
        2021: _by(10750, 21500, 10750, 16125, 21500),
        2022: _by(12750, 25500, 12750, 19125, 25500),
        2023: _by(12750, 25500, 12750, 19125, 25500),
    },
    'hsa_limit_self': {2021: 3600, 2022: 3650, 2023: 3850},
    'hsa_limit_family': {2021: 7200, 2022: 7300, 2023: 7750},
    'actc_cap_per_child': {2022: 1500, 2023: 1600},
    'ctc_per_child': {2022: 2000, 2023: 2000},
    'odc_per_dependent': {2021: 500, 2022: 500, 2023: 500},
    'sched_b_threshold': {2021: 1500, 2022: 1500, 2023: 1500},
    'addl_medicare_withholding_point': {2021: 200000, 2022: 200000, 2023: 200000},
    'eic_investment_cap': {2021: 10000, 2022: 10300, 2023: 11000},
    'nc_rate': {2021: F(525, 10000), 2022: F(499, 10000), 2023: F(475, 10000)},
    'nc_mortgage_proptax_cap': {2021: 20000, 2022: 20000, 2023: 20000},
    # EIC AGI limits by number of qualifying children (0,1,2,3+)
    'eic_limit_other': {
        2021: [21430, 42158, 47915, 51464],
        2022: [16480, 43492, 49399, 53057],
        2023: [17640, 46560, 52918, 56838],
    },
    'eic_limit_mfj': {
        2021: [27380, 48108, 53865, 57414],
        2022: [22610, 49622, 55529, 59187],
        2023: [24210, 53120, 59478, 63398],
    },
    # 2021 only
    'ctc_2021_first_phaseout': {2021: _by(75000, 150000, 75000, 112500, 150000)},
    # 2021 Schedule 8812 Part III line 33 (repayment protection): 60,000 joint / qualifying widow(er), 50,000 head of household, 40,000 others
    'ctc_2021_repayment_protection_agi': {2021: _by(40000, 60000, 40000, 50000, 60000)},
    'ctc_2021_line5wkst_line6': {2021: _by(6250, 12500, 6250, 4375, 2500)},
    'rrc_phaseout_start': {2021: _by(75000, 150000, 75000, 112500, 150000)},
    'rrc_phaseout_end': {2021: _by(80000, 160000, 80000, 120000, 160000)},
    'rrc_denominator': {2021: _by(5000, 10000, 5000, 7500, 10000)},
    'rrc_per_person': {2021: 1400},
    'cash_charity_nonitemizer': {2021: _by(300, 600, 300, 300, 300)},
}

# NC child deduction per child by federal AGI band (D-400 child deduction
# worksheet).  (upper edge inclusive, amount); above the last edge: 0.
NC_CHILD = {
    2021: {
        'MFJ': [(40000, 2500), (60000, 2000), (80000, 1500), (100000, 1000), (120000, 500)],
        'HOH': [(30000, 2500), (45000, 2000), (60000, 1500), (75000, 1000), (90000, 500)],
        'S':   [(20000, 2500), (30000, 2000), (40000, 1500), (50000, 1000), (60000, 500)],
    },
    2022: {
        'MFJ': [(40000, 3000), (60000, 2500), (80000, 2000), (100000, 1500), (120000, 1000), (140000, 500)],
        'HOH': [(30000, 3000), (45000, 2500), (60000, 2000), (75000, 1500), (90000, 1000), (105000, 500)],
        'S':   [(20000, 3000), (30000, 2500), (40000, 2000), (50000, 1500), (60000, 1000), (70000, 500)],
    },
}
NC_CHILD[2023] = NC_CHILD[2022]
for _y in NC_CHILD:
    NC_CHILD[_y]['QSS'] = NC_CHILD[_y]['MFJ']
    NC_CHILD[_y]['MFS'] = NC_CHILD[_y]['S']


def amount(name, year, status=None):
    v = AMOUNTS[name].get(year)
    if v is None:
        return None
    if isinstance(v, dict):
        return v[status]
    return v


def nc_child_deduction(year, status, agi):
    for edge, amt in NC_CHILD[year][status]:
        if agi <= edge:
            return amt
    return 0


# N.C. consumer use tax table (D-400 instructions, "Use Tax Table": N.C. taxable income at least / but less than -> use tax;
# 0.0675 % of income from 45,200 up).  The published limits are (k + 0.5) / 0.000675 rounded to the nearest 100.
NC_USE_TAX_LIMITS = [2200, 3700, 5200, 6700, 8100, 9600, 11100, 12600, 14100, 15600, 17000, 18500, 20000, 21500, 23000, 24400, 25900, 27400,
                     28900, 30400, 31900, 33300, 34800, 36300, 37800, 39300, 40700, 42200, 43700, 45200]
NC_USE_TAX_RATE = 0.000675
assert all(abs(lim - round((k + 1.5) / NC_USE_TAX_RATE, -2)) < 1e-6 for k, lim in enumerate(NC_USE_TAX_LIMITS))


def nc_use_tax_estimate(income):
    for k, lim in enumerate(NC_USE_TAX_LIMITS):
        if income < lim:
            return float(k + 1)
    return income * NC_USE_TAX_RATE
