"""Shared plumbing: locating the repository under test, result accumulation,
stable hashing.  Nothing here knows about any particular property."""
import hashlib
import json
import os
import random
import sys
import warnings

VERIF_DIR = os.path.dirname(os.path.dirname(os.path.abspath(__file__)))
REPO = os.environ.get('VERIF_REPO', '/repo')


def setup_paths():
    """Make `import habutax` resolve to the working tree under test (never a
    cached or installed copy) and make the contract library importable."""
    deps = os.path.join(VERIF_DIR, '.deps')
    for p in (deps, VERIF_DIR, REPO):
        if p in sys.path:
            sys.path.remove(p)
    sys.path.insert(0, deps)
    sys.path.insert(0, VERIF_DIR)
    sys.path.insert(0, REPO)
    sys.dont_write_bytecode = True
    warnings.filterwarnings('ignore', category=SyntaxWarning)
    # the repository's 2021-2023 form modules use '\-' inside normal strings


def import_habutax():
    setup_paths()
    import habutax  # noqa
    got = os.path.realpath(os.path.dirname(os.path.dirname(habutax.__file__)))
    want = os.path.realpath(REPO)
    if got != want:
        raise RuntimeError(f'habutax imported from {got}, expected {want}')
    return habutax


def h(obj, n=12):
    """Stable short hash of a JSON-able object (independent of PYTHONHASHSEED)."""
    s = json.dumps(obj, sort_keys=True, default=str)
    return hashlib.sha1(s.encode()).hexdigest()[:n]


def rng_for(*parts):
    return random.Random(h(parts, 16))


class Result(object):
    """What one shard (or one whole check) observed.  Mergeable.

    evaluations   executions run
    distinct      set of signatures of non-trivial distinct cases (strings)
    counters      additive named counters (events by kind, monitor evaluations)
    sets          named sets of strings (lines seen, gates read, ...)
    samples       a few actual cases, written out
    violations    list of {key, what, replay}
    inconclusive  list of reasons
    """

    MAX_SAMPLES = 6
    MAX_VIOL_PER_KEY = 3
    LIVE = []          # every Result made in this process (a shard that crashes in the harness still reports what it had decided)

    def __init__(self):
        Result.LIVE.append(self)
        self.evaluations = 0
        self.distinct = set()
        self.counters = {}
        self.sets = {}
        self.samples = []
        self.violations = []
        self.inconclusive = []
        self.extra = {}

    def count(self, name, n=1):
        self.counters[name] = self.counters.get(name, 0) + n

    def add(self, setname, item):
        self.sets.setdefault(setname, set()).add(item)

    def sample(self, s):
        if len(self.samples) < self.MAX_SAMPLES:
            self.samples.append(s)

    def violation(self, key, what, replay=None):
        n = sum(1 for v in self.violations if v['key'] == key)
        self.count('violations_raw')
        if n < self.MAX_VIOL_PER_KEY:
            self.violations.append({'key': key, 'what': what, 'replay': replay})

    def to_json(self):
        return {
            'evaluations': self.evaluations,
            'distinct': sorted(self.distinct),
            'counters': self.counters,
            'sets': {k: sorted(v) for k, v in self.sets.items()},
            'samples': self.samples,
            'violations': self.violations,
            'inconclusive': self.inconclusive,
            'extra': self.extra,
        }

    @classmethod
    def from_json(cls, d):
        r = cls()
        r.evaluations = d['evaluations']
        r.distinct = set(d['distinct'])
        r.counters = dict(d['counters'])
        r.sets = {k: set(v) for k, v in d['sets'].items()}
        r.samples = list(d['samples'])
        r.violations = list(d['violations'])
        r.inconclusive = list(d['inconclusive'])
        r.extra = dict(d.get('extra', {}))
        return r

    def merge(self, other):
        self.evaluations += other.evaluations
        self.distinct |= other.distinct
        for k, v in other.counters.items():
            self.counters[k] = self.counters.get(k, 0) + v
        for k, v in other.sets.items():
            self.sets.setdefault(k, set()).update(v)
        for s in other.samples:
            self.sample(s)
        for v in other.violations:
            n = sum(1 for x in self.violations if x['key'] == v['key'])
            if n < self.MAX_VIOL_PER_KEY:
                self.violations.append(v)
        self.inconclusive.extend(other.inconclusive)
        for k, v in other.extra.items():
            if k not in self.extra:
                self.extra[k] = v
            elif isinstance(v, list) and isinstance(self.extra[k], list):
                self.extra[k] = self.extra[k] + v
            elif isinstance(v, dict) and isinstance(self.extra[k], dict):
                self.extra[k].update(v)
        return self
