"""Real-form workload shared by the monitors (filled in by hv/scen.py)."""


def shards(pid, tier):
    return []


def run_shard(pid, spec, tier, seed):
    raise NotImplementedError
