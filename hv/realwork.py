"""Real-form workload shared by the solver-level monitors: personas answering
on demand (hv/scen.py), solved under the boundary wrappers, with the variants
each property needs (refusal, gate flips, schedules, file/prompt splits)."""
import os
import random
import re

from hv import hx, scen, drive, trace, oracles
from hv.common import Result, rng_for, h

YEARS = [2021, 2022, 2023]
N_QUICK = {'C01': 12, 'C03': 8, 'C04': 10, 'C05': 5, 'C06': 8, 'C12': 10, 'C13': 6}
N_THOROUGH = {'C01': 800, 'C03': 600, 'C04': 800, 'C05': 250, 'C06': 600, 'C12': 800, 'C13': 400}
CEILING = 60000


def shards(pid, tier):
    n = (N_QUICK if tier == 'quick' else N_THOROUGH)[pid]
    sp = []
    fams = scen.FAMILIES
    groups = [fams[0:4], fams[4:8], fams[8:12]] if tier == 'quick' else [[f] for f in fams]
    for y in YEARS:
        for g in groups:
            sp.append({'kind': 'real', 'year': y, 'families': g, 'n': n if tier == 'quick' else max(1, n // 4)})
        for part in range(3):
            sp.append({'kind': 'real', 'year': y, 'directed': True, 'part': part, 'n': 1 if tier == 'quick' else 12})
    return sp


INPUT_FORM_NAMES = {'w-2', '1098', '1099-int', '1099-div', '1099-g', '1099-r', '1099-oid'}


def traced(p, **kw):
    with trace.Tracer(ceiling=CEILING) as t:
        out = scen.solve_persona(p, tracer=t, **kw)
    tv = trace.TraceView(t.events)
    return out, tv, t


def replay_of(p, variant, spec):
    d = p.describe()
    return {'engine': 'scen', 'persona': d, 'variant': variant, 'shard': spec}


def real_sig(out, tv):
    forms = sorted(set(k.split('.')[0].split(':')[0] for k in tv.stored))
    return h([drive.verdict_class(out), forms, sorted(tv.unimpl)[:4]], 10)


BOOL_GATES_CACHE = {}


def bool_inputs_read(tv):
    return sorted({r[0] for r in tv.input_reads if r[1] == 'value' and r[2] is False})


def key_line(msg):
    """first qualified line name in a message (mechanism key component)"""
    import re
    m = re.search(r"([0-9a-z_\-]+(?::[a-z0-9]+)?\.[0-9a-z_]+)", msg)
    if not m:
        return '?'
    k = m.group(1)
    f, b = k.split('.', 1)
    return f.split(':')[0] + '.' + b


def run_shard(pid, spec, tier, seed):
    res = Result()
    year = spec['year']
    rng = rng_for(pid, 'real', seed, spec)
    if spec.get('directed'):
        for k_, (fam, p) in enumerate(scen.directed_personas(year, seed, spec['n'])):
            if k_ % 3 == spec.get('part', 0):
                run_case(pid, p, rng, res, spec, tier)
        return res
    for fam in spec['families']:
        for p in scen.personas(seed, year, fam, spec['n']):
            run_case(pid, p, rng, res, spec, tier)
    return res


def viol(res, pid, year, suffix, msg, p, variant, spec):
    res.violation(f'{pid}|real|{year}|{suffix}|{key_line(msg)}', f'{p.year} {p.family} {p.key} [{variant}]: {msg}', replay_of(p, variant, spec))


def run_case(pid, p, rng, res, spec, tier):
    year = p.year
    out, tv, t = traced(p)
    res.evaluations += 1
    res.count('real_solves')
    res.count('real_' + drive.verdict_class(out).split(':')[0])
    for k, n in tv.counts().items():
        res.count('ev_' + k, n)
    res.distinct.add('R' + real_sig(out, tv))
    answers = dict(p.answers)
    if res.counters['real_solves'] == 1:
        res.sample({'persona': p.describe(), 'verdict': drive.verdict_class(out), 'prompts': len(tv.prompts), 'lines_stored': len(tv.stored)})

    def fresh(overrides=None):
        q = scen.Persona(p.year, p.family, p.key, overrides=dict(answers, **(overrides or {})))
        q.nc = p.nc           # a directed persona decides by itself which forms it requests
        return q

    if pid == 'C01':
        for s, m in oracles.c01(out, tv):
            viol(res, pid, year, s, m, p, 'base', spec)
        nprompts = len(tv.prompts)
        variants = []
        for k in sorted({0, rng.randint(0, max(0, nprompts - 1)), rng.randint(0, max(0, nprompts - 1)), max(0, nprompts - 1)}):
            variants.append((f'refuse-from-{k}', {'refuse_from': k}, None))
        gates = bool_inputs_read(tv)
        if spec.get('directed'):
            # few, purpose-built returns: flip every curated gate they read
            from hv.monitors import c09
            cur = c09.gates_for(year, hx)
            for g in gates:
                if c09.strip_instance(g) in cur:
                    variants.append((f'flip:{g}', {}, {g: 'yes'}))
        else:
            for g in rng.sample(gates, min(4, len(gates))):
                variants.append((f'flip:{g}', {}, {g: 'yes'}))
        # two calls on one Solver: first a statement form alone (solves), then the return; with and without a refusing user
        first = sorted(k_.split('.')[0] for k_ in tv.stored if k_.split('.')[0].split(':')[0] in INPUT_FORM_NAMES)[:1]
        if first:
            variants.append(('two-calls', {'forms': first, 'then_request': list(p.forms())}, None))
            variants.append(('two-calls-refuse-from-3', {'forms': first, 'then_request': list(p.forms()), 'refuse_from': len([q for q in answers if q.split('.')[0] == first[0]]) + 3}, None))
        variants.append(('need_8962', {}, {'1040.need_8962': 'yes'}))
        variants.append(('oid', {}, {'1040.number_1099-oid': '1'}))
        # lines asked for by name (`field_names`): an optional line of a form the return has, and a line of a form the
        # return never brings in - the first must be computed, the second computed or the call aborts; "solved" without it is silent
        if out.exc is None:
            loaded = set(out.solver.forms)
            opt = sorted(f.name() for fo in out.solver.forms.values() for f in fo.fields() if f.name() not in tv.stored and fo.name().split(':')[0] not in INPUT_FORM_NAMES)
            absent = []
            for c in sorted(hx.catalogue(year), key=lambda c: c.form_name):
                if c.form_name not in {n.split(':')[0] for n in loaded} and c.form_name not in INPUT_FORM_NAMES:
                    try:
                        fo_ = c(instance='you') if c.form_name in ('8889', '8606') else c()
                        req = [f.name() for f in fo_.required_fields()] or [f.name() for f in fo_.fields()]
                        if req:
                            absent.append(req[-1])
                    except Exception:  # noqa
                        pass
            if opt:
                variants.append(('asked-by-name:optional', {'field_names': [opt[rng.randrange(len(opt))]]}, None))
            for a_ in rng.sample(absent, min(2, len(absent))):
                variants.append(('asked-by-name:absent-form', {'field_names': [a_]}, None))
        for name, kw, ov in variants:
            q = fresh(ov)
            o2, tv2, _ = traced(q, **kw)
            if kw.get('field_names'):
                o2.field_names = list(kw['field_names'])
            res.evaluations += 1
            res.count('real_variant_' + name.split(':')[0].split('-')[0])
            res.count('real_' + drive.verdict_class(o2).split(':')[0])
            res.count('ev_UNIMPL', len(tv2.unimpl))
            res.distinct.add('R' + real_sig(o2, tv2))
            for s, m in oracles.c01(o2, tv2):
                viol(res, pid, year, s, m, q, name, spec)
            if name.startswith('flip:') and o2.exc is None and o2.ret is True:
                from hv.monitors import c09
                gates = c09.gates_for(year, hx)
                g = c09.strip_instance(name[5:])
                if g in gates and gates[g][0] is True and gates[g][1] is None and g.split('.')[0] not in c09.INPUT_FORMS:
                    if any(r[0] == name[5:] and r[1] == 'value' and r[2] is True and r[5] != name[5:] for r in tv2.input_reads):
                        viol(res, pid, year, 'solved-although-unsupported-situation-declared',
                             f'{name[5:]} = yes ({gates[g][2]}) was consulted and the return still solved: something was silently skipped', q, name, spec)
    elif pid == 'C03':
        for ss in (None, 1, 2):
            if ss is None:
                o2, tv2 = out, tv
            else:
                o2, tv2, _ = traced(fresh(), schedule_seed=ss)
                res.evaluations += 1
            v, n = oracles.c03(o2, tv2)
            res.count('lines_reevaluated', n)
            res.add('schedules', str(ss))
            if any(len(a) > 1 for a in tv2.attempts.values()):
                res.count('runs_with_reattempts')
            for s, m in v:
                viol(res, pid, year, s, m, p, f'schedule:{ss}', spec)
        # every form the return pulled in by reference, requested up front: all their lines are outstanding
        # from the start, so a line that sums "whatever is there" instead of demanding its operands shows
        if out.exc is None:
            pulled = sorted(set(k.split('.')[0] for k in tv.stored) - set(p.forms()))
            pulled = [f for f in pulled if f.split(':')[0] not in INPUT_FORM_NAMES]
            if pulled:
                for ss in (None, 5):
                    o6, tv6, _ = traced(fresh(), schedule_seed=ss, forms=list(p.forms()) + pulled)
                    res.evaluations += 1
                    res.count('runs_with_referenced_forms_requested')
                    v, n = oracles.c03(o6, tv6)
                    res.count('lines_reevaluated', n)
                    for s, m in v:
                        viol(res, pid, year, s, m, p, f'referenced-forms-requested:{ss}', spec)
        # history: solve, change some inputs through the store's public mapping interface, solve again on the SAME store
        if out.exc is None:
            changed = {}
            for key_, val_ in sorted(answers.items()):
                if re.match(r'^w-2:\d+\.box_(1|2)$', key_) or key_ in ('1040.estimated_tax_payments',):
                    try:
                        changed[key_] = f'{float(val_ or 0) + 1234.5:.2f}'
                    except ValueError:
                        pass
            if changed:
                for key_, val_ in changed.items():
                    out.store[key_] = val_
                # second solver, same InputStore object as the first solve
                with trace.Tracer(ceiling=CEILING) as t5:
                    s5 = hx.solver.Solver(out.store, out.classes, prompt=None)
                    o5 = drive.Outcome()
                    o5.solver, o5.store, o5.cp, o5.classes = s5, out.store, out.cp, out.classes
                    o5.request, o5.field_names, o5.prompts = p.forms(), [], []
                    o5.initial_inputs = drive.final_inputs(out.cp)
                    try:
                        o5.ret = s5.solve(p.forms())
                        o5.solution, o5.unimplemented = s5.solution(), list(s5.unimplemented_fields())
                        o5.unmet_inputs, o5.unmet_fields = s5.unmet_input_dependencies(), s5.unmet_field_dependencies()
                    except BaseException as e:  # noqa
                        o5.exc = e
                    o5.final_inputs = drive.final_inputs(out.cp)
                tv5 = trace.TraceView(t5.events)
                res.evaluations += 1
                res.count('resolve_histories')
                v, n = oracles.c03(o5, tv5)
                res.count('lines_reevaluated', n)
                for s_, m in v:
                    viol(res, pid, year, s_, m, p, 'solve-change-inputs-solve', spec)
        # history across tax years: the SAME InputStore handed to a solver for another year (whatever the
        # first solver left in the store - input definitions, parsed values - must not leak into the second)
        if out.exc is None:
            y2 = {2021: 2022, 2022: 2023, 2023: 2021}[year]
            for request in (['nc_d-400'], ['1040_s1', '1040']):
                classes2 = hx.catalogue(y2)
                with trace.Tracer(ceiling=CEILING) as t7:
                    s7 = hx.solver.Solver(out.store, classes2, prompt=None)
                    o7 = drive.Outcome()
                    o7.solver, o7.store, o7.cp, o7.classes = s7, out.store, out.cp, classes2
                    o7.request, o7.field_names, o7.prompts = request, [], []
                    o7.initial_inputs = drive.final_inputs(out.cp)
                    try:
                        o7.ret = s7.solve(list(request))
                        o7.solution, o7.unimplemented = s7.solution(), list(s7.unimplemented_fields())
                        o7.unmet_inputs, o7.unmet_fields = s7.unmet_input_dependencies(), s7.unmet_field_dependencies()
                    except BaseException as e:  # noqa
                        o7.exc = e
                    o7.final_inputs = drive.final_inputs(out.cp)
                tv7 = trace.TraceView(t7.events)
                res.evaluations += 1
                res.count('cross_year_histories')
                if o7.exc is None:
                    v, n = oracles.c03(o7, tv7)
                    res.count('lines_reevaluated', n)
                    for s_, m in v:
                        viol(res, pid, year, s_, m, p, f'same-store-then-{y2}:{request[0]}', spec)
        k = rng.randint(0, max(0, len(tv.prompts) - 1))
        o3, tv3, _ = traced(fresh(), refuse_from=k)
        res.evaluations += 1
        v, n = oracles.c03(o3, tv3)
        res.count('lines_reevaluated', n)
        res.count('partial_solutions_checked')
        for s, m in v:
            viol(res, pid, year, s, m, p, f'refuse-from-{k}', spec)
    elif pid == 'C04':
        for s, m in oracles.c04(out, tv):
            viol(res, pid, year, s, m, p, 'base', spec)
        res.count('closure_checks')
        if out.exc is None and out.ret is True:
            res.count('solved_runs')
            pulled = set(k.split('.')[0] for k in tv.read_keys) - set(p.forms())
            if pulled:
                res.count('solved_runs_pulling_forms')
            for f in pulled:
                res.add('forms_pulled_by_reference', f.split(':')[0])
        # two calls on one Solver: a statement form first, then the return - the closure is that of both requests
        first = sorted(k_.split('.')[0] for k_ in tv.stored if k_.split('.')[0].split(':')[0] in INPUT_FORM_NAMES)[:1]
        if first:
            o4, tv4, _ = traced(fresh(), forms=first, then_request=list(p.forms()))
            res.evaluations += 1
            res.count('closure_checks')
            res.count('closure_checks_two_calls')
            for s, m in oracles.c04(o4, tv4):
                viol(res, pid, year, s, m, p, 'two-calls', spec)
            # ... and the return first (with a line nothing else reads signalling "not implemented"), another schedule afterwards
            leaf = '1040.virtual_currency' if year == 2021 else '1040.digital_assets'
            more = ['1040_s1'] if '1040_s1' not in p.forms() else ['1040_sb']
            o4, tv4, _ = traced(fresh({leaf: 'yes'}), then_request=more)
            res.evaluations += 1
            res.count('closure_checks')
            res.count('closure_checks_two_calls')
            for s, m in oracles.c04(o4, tv4):
                viol(res, pid, year, s, m, p, 'two-calls-after-unimplemented-leaf', spec)
        # numbered copies of one form requested by name, alone and next to the return
        copies = sorted({k_.split('.')[0] for k_ in tv.stored if ':' in k_.split('.')[0] and k_.split('.')[0].split(':')[0] in INPUT_FORM_NAMES})
        if len(copies) >= 2:
            for request in (copies[:3], list(p.forms()) + copies[:2]):
                o4, tv4, _ = traced(fresh(), forms=request)
                res.evaluations += 1
                res.count('closure_checks')
                res.count('closure_checks_with_copies_requested')
                for s, m in oracles.c04(o4, tv4):
                    viol(res, pid, year, s, m, p, f'copies-requested:{len(request)}', spec)
        k = rng.randint(0, max(0, len(tv.prompts) - 1))
        o3, tv3, _ = traced(fresh(), refuse_from=k)
        res.evaluations += 1
        res.count('closure_checks')
        for s, m in oracles.c04(o3, tv3):
            viol(res, pid, year, s, m, p, f'refuse-from-{k}', spec)
    elif pid == 'C06':
        for s, m in oracles.c06(out, tv):
            viol(res, pid, year, s, m, p, 'base', spec)
        res.count('solves')
        res.count('ev_ATTEMPT', t.n_attempts)
        nprompts = len(tv.prompts)
        for k in sorted({0, rng.randint(0, max(0, nprompts - 1)), rng.randint(0, max(0, nprompts - 1))}):
            o2, tv2, t2 = traced(fresh(), refuse_from=k, schedule_seed=rng.choice([None, 4]))
            res.evaluations += 1
            res.count('solves')
            res.count('solves_with_refusal')
            res.count('ev_ATTEMPT', t2.n_attempts)
            res.count('ev_DEP', sum(1 for e in tv2.events if e[0] == 'DEP'))
            if isinstance(o2.exc, trace.WorkCeiling):
                viol(res, pid, year, 'work-ceiling', str(o2.exc), p, f'refuse-from-{k}', spec)
            for s, m in oracles.c06(o2, tv2):
                viol(res, pid, year, s, m, p, f'refuse-from-{k}', spec)
        # optional lines the return computes anyway (another line reads them), asked for by name as well: being asked for
        # twice over - by name and by the line that reads them - does not double the work (every answer prompted, so they wait)
        if out.exc is None:
            reqd = {f.name() for fo in out.solver.forms.values() for f in fo.required_fields()}
            opt = sorted(l for l in tv.stored if l not in reqd and l.split('.')[0].split(':')[0] not in INPUT_FORM_NAMES
                         and any(a[0] in ('unmet_line', 'missing_input') for a in tv.attempts.get(l, ())))
            if opt:
                names = rng.sample(opt, min(4, len(opt)))
                # (a line can only be named once its form is loaded: the forms of the named lines are requested too)
                o3, tv3, t3 = traced(fresh(), field_names=names, schedule_seed=rng.choice([None, 6]), forms=list(p.forms()) + sorted({n_.split('.')[0] for n_ in names} - set(p.forms())))
                res.count('asked_by_name_' + drive.verdict_class(o3).split(':')[0])
                o3.field_names = list(names)
                res.evaluations += 1
                res.count('solves')
                res.count('solves_with_optional_lines_asked_by_name')
                res.count('ev_ATTEMPT', t3.n_attempts)
                for s, m in oracles.c06(o3, tv3):
                    viol(res, pid, year, s, m, p, f'asked-by-name:{names[0]}', spec)
    elif pid == 'C12':
        if out.exc is None:
            v, n = oracles.c12(out, tv)
            res.count('stores_checked', n)
            for ev in tv.events:
                if ev[0] == 'STORE_LINE':
                    res.add('real_lines_stored', f'{year}|{key_line(ev[1] + " ")}')
            for s, m in v:
                viol(res, pid, year, s, m, p, 'base', spec)
        elif isinstance(out.exc, TypeError):
            res.count('typeerror_aborts')
            lo = [a for a in tv.attempts.items() if a[1][-1][0] == 'error']
            named = any(l in str(out.exc) for l, _ in lo)
            if lo and not named:
                viol(res, pid, year, 'typeerror-does-not-name-line', f'{lo[0][0]} TypeError message {str(out.exc)[:100]!r}', p, 'base', spec)
            elif lo:
                # the framework did its part (rejected, naming the line); the *shipped* definition is what
                # answered with a type other than the one its line declares, on a valid return
                viol(res, pid, year, f'shipped-definition-wrong-type|{key_line(lo[0][0] + " ")}', f'{lo[0][0]}: the shipped definition answered with another type than the line declares and the return cannot be solved: {str(out.exc)[:120]}', p, 'base', spec)
    elif pid == 'C13':
        res.count('prompts_checked', len(tv.prompts))
        for s, m in oracles.c13(out, tv):
            viol(res, pid, year, s, m, p, 'base', spec)
        for ss in (3,):
            o2, tv2, _ = traced(fresh(), schedule_seed=ss)
            res.evaluations += 1
            res.count('prompts_checked', len(tv2.prompts))
            for s, m in oracles.c13(o2, tv2):
                viol(res, pid, year, s, m, p, f'schedule:{ss}', spec)
        if out.exc is None and out.ret is True:
            # run 2 on the written-back inputs: asks nothing, identical solution
            q = fresh()
            o2, tv2, _ = traced(q, file_map=dict(out.final_inputs), refuse_from=0)
            res.evaluations += 1
            res.count('histories')
            if tv2.prompts:
                viol(res, pid, year, 'second-run-asks', f'second run asked {[x[0] for x in tv2.prompts][:3]}', p, 'run2', spec)
            if o2.exc is not None or o2.ret is not True or drive.solution_map(o2) != drive.solution_map(out):
                viol(res, pid, year, 'second-run-differs', f'second run: {drive.verdict_class(o2)} / different solution', p, 'run2', spec)
            read = {r[0] for r in tv.input_reads} | {r[0] for r in tv2.input_reads}
            pruned = {k: v for k, v in out.final_inputs.items() if k in read}
            if len(pruned) < len(out.final_inputs):
                res.count('histories_with_pruned_inputs')
                o3, tv3, _ = traced(fresh(), file_map=pruned, refuse_from=0)
                res.evaluations += 1
                if tv3.prompts or o3.exc is not None or o3.ret is not True or drive.solution_map(o3) != drive.solution_map(out):
                    viol(res, pid, year, 'never-read-input-required', f'after deleting never-read inputs the outcome changed: {drive.verdict_class(o3)} prompts {[x[0] for x in tv3.prompts][:3]}', p, 'run3', spec)
            # ... and the other way round: the file also holds entries for inputs of the participating forms that no line reads
            # (a left-over of a `list-form-inputs` template, "not applicable" where the filer has no spouse): whatever they hold, they are not needed
            unread = sorted(i_.name() for fo in out.solver.forms.values() for i_ in fo.inputs() if i_.name() not in read and i_.name() not in out.final_inputs)
            if unread:
                junk = dict(out.final_inputs)
                for n_, k_ in enumerate(rng.sample(unread, min(6, len(unread)))):
                    junk[k_] = ['not applicable', '', 'n/a', '?'][n_ % 4]
                res.count('histories_with_unread_inputs_holding_junk')
                o4, tv4, _ = traced(fresh(), file_map=junk, refuse_from=0)
                res.evaluations += 1
                if tv4.prompts or o4.exc is not None or o4.ret is not True or drive.solution_map(o4) != drive.solution_map(out):
                    viol(res, pid, year, 'never-read-input-required', f'with junk in inputs that no line reads ({sorted(set(junk) - set(out.final_inputs))[:3]}) the outcome changed: {drive.verdict_class(o4)} {type(o4.exc).__name__ if o4.exc else ""} {str(o4.exc)[:80] if o4.exc else ""}', p, 'run4', spec)
    elif pid == 'C05':
        from hv.monitors import c05
        base = c05.canon(out, tv)
        # the complete answer set, collected independently of how prompted answers
        # are stored: feed what is known through the file and let the persona
        # answer the rest, until nothing new is asked
        for _ in range(40):
            q = fresh()
            o2 = scen.solve_persona(q, file_map=dict(answers))
            new = {k: v for k, v in q.answers.items() if k not in answers}
            if not new:
                break
            answers.update(new)
        seqs = {c05.attempt_seq(tv)}
        variants = []
        K = 2 if tier == 'quick' else 4
        for k in range(K):
            variants.append((f'schedule:{k + 1}', {'schedule_seed': k + 1}))
        if len(p.forms()) > 1:
            variants.append(('form-order', {'forms': list(reversed(p.forms()))}))
        variants.append(('all-in-file', {'file_map': dict(answers), 'refuse_from': 0}))
        items = sorted(answers.items())
        rng.shuffle(items)
        variants.append(('split', {'file_map': dict(items[:len(items) // 2])}))
        variants.append(('file-layout', {'file_text': layout_text(answers, rng), 'refuse_from': 0}))
        variants.append(('file-on-disk', {'file_on_disk': True, 'refuse_from': 0}))
        # the file a careful user prepares from the `list-form-inputs` templates: EVERY input of every form of the return, asked
        # for or not (values the persona would give if asked) - what is never read is not needed, what is read gives the same
        # result whether it sat in the file or was typed
        if out.exc is None:
            whole = dict(answers)
            for fo in out.solver.forms.values():
                for inp in fo.inputs():
                    if inp.name() not in whole:
                        whole[inp.name()] = p.answer(inp)       # the persona itself (a purpose-built one knows its amounts)
            variants.append(('whole-file', {'file_map': whole, 'refuse_from': 0}))
        for name, kw in variants:
            kw = dict(kw)
            ft = kw.pop('file_text', None)
            q = fresh()
            tmpdir = None
            if kw.pop('file_on_disk', False):
                import tempfile
                from hv.monitors.c20 import write_ini
                tmpdir = tempfile.mkdtemp(prefix='hv_c05_')
                kw['input_path'] = os.path.join(tmpdir, 'in.ini')
                write_ini(kw['input_path'], answers)
            if ft is not None:
                cp = drive.config_from(text=ft)
                kw['file_map'] = drive.final_inputs(cp)
                res.count('layout_variants')
            o2, tv2, _ = traced(q, **kw)
            if tmpdir:
                import shutil
                shutil.rmtree(tmpdir, ignore_errors=True)
            res.evaluations += 1
            res.count('variants_compared')
            seqs.add(c05.attempt_seq(tv2))
            c = c05.canon(o2, tv2)
            if c05.refused(tv2) or c05.refused(tv):
                same = (c[0] == 'solved') == (base[0] == 'solved')
            else:
                same = c == base
            if not same:
                viol(res, pid, year, name.split(':')[0], 'outcome differs from the natural order: ' + c05._diff(base, c), p, name, spec)
        # a session the user breaks off after k answers, against a run that finds exactly those k answers in the file and has
        # nobody to ask: the same lines are computed, the same inputs reported missing, the same lines reported waiting
        nprompts = len(tv.prompts)
        if out.exc is None and nprompts > 2:
            for k_ in sorted({1, rng.randint(1, nprompts - 1), rng.randint(1, nprompts - 1)}):
                oi, tvi, _ = traced(fresh(), refuse_from=k_)
                if oi.exc is not None:
                    continue
                of, tvf, _ = traced(fresh(), file_map=dict(oi.final_inputs), refuse_from=0)
                res.evaluations += 2
                res.count('interrupted_sessions_compared_with_file_runs')
                ci, cf = c05.canon(oi, tvi), c05.canon(of, tvf)
                if ci[0:2] + ci[5:] != cf[0:2] + cf[5:] or {k__ for k__, _ in ci[3]} != {k__ for k__, _ in cf[3]}:
                    viol(res, pid, year, 'interrupted-vs-file', f'a session broken off after {k_} answers and a run reading those {k_} answers from the file differ: ' + c05._diff(ci, cf), p, f'interrupted:{k_}', spec)
        if len(seqs) > 1:
            res.count('cases_with_distinct_orders')
        for s in seqs:
            res.distinct.add(s)


def layout_text(answers, rng):
    """The same inputs as an INI text with shuffled sections and keys, mixed
    key case, comments and blank lines."""
    secs = {}
    for q, v in answers.items():
        s, b = q.split('.', 1)
        secs.setdefault(s, []).append((b, v))
    names = list(secs)
    rng.shuffle(names)
    lines = ['# generated layout variant', '']
    for s in names:
        lines.append(f'[{s}]')
        kv = secs[s]
        rng.shuffle(kv)
        for b, v in kv:
            if rng.random() < 0.3:
                lines.append('; a comment')
            key = b.upper() if rng.random() < 0.3 else b
            sep = rng.choice([' = ', '=', ': '])
            lines.append(f'{key}{sep}{v}')
            if rng.random() < 0.2:
                lines.append('')
        lines.append('')
    return '\n'.join(lines)
