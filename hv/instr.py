"""E5 - official-instruction interpreter.

`parsed_rules(year, form_obj)` compiles the official wording of each mapped
numeric line (the <speak> text of the template field the line is written into)
to a Rule by a closed set of patterns.  Wording that matches no pattern yields
no rule.  A Rule is evaluated on one typed solution: it is applicable only if
the line and all its operands are in that solution."""
import math
import re

from hv import pdfspec
from hv.monitors.c18 import label_of, norm_line

FORM_WORDS = [
    (r'Schedule 1\b', '1040_s1'), (r'Schedule 2\b', '1040_s2'), (r'Schedule 3\b', '1040_s3'), (r'Schedule 8812\b', '1040_s8812'),
    (r'Schedule A\b', '1040_sa'), (r'Schedule B\b', '1040_sb'), (r'Form 8995\b', '8995'), (r'Form 8889\b', '8889'), (r'Form 8606\b', '8606'),
    (r'Form 8959\b', '8959'), (r'Form 1040\b', '1040'),
]


class Rule(object):
    def __init__(self, form, line, kind, fn, operands, provenance, text):
        self.form, self.line, self.kind, self.fn = form, line, kind, fn
        self.operands = operands          # list of 'form.line' or '.line' (own form)
        self.provenance, self.text = provenance, text

    def key(self):
        return f'{self.form}.{self.line}'


def _money(s):
    return float(s.replace(',', '').replace('$', ''))


def _labkey(lab):
    m = re.match(r'(\d+)([a-z]?)', lab)
    return (int(m.group(1)), m.group(2))


def expand_list(text, order):
    """'1 through 4, 5a, 5b, and 7' -> labels; ranges expand over `order`
    (the template's own labels in reading order)."""
    text = text.replace(' and ', ', ').replace(';', ',')
    out = []
    for item in [x.strip() for x in text.split(',') if x.strip()]:
        item = re.sub(r'^lines? ', '', item)
        m = re.match(r'^(\d+[a-z]?) through (\d+[a-z]?)$', item)
        if m:
            a, b = _labkey(m.group(1)), _labkey(m.group(2))
            rng = [l for l in order if a <= _labkey(l) <= b]
            if not rng:
                return None
            out.extend(rng)
            continue
        if re.match(r'^\d+[a-z]?$', item):
            out.append(item)
            continue
        return None
    seen = []
    for l in out:
        if l not in seen:
            seen.append(l)
    return seen


def parsed_rules(year, fo):
    """Rules for the numeric lines of form object `fo` from its template."""
    from hv import hx
    F, PF = hx.fields, hx.pdf_fields
    if not fo.pdf_file():
        return []
    tpl = pdfspec.parse(fo.pdf_file())
    if tpl.flavour != 'xfa':
        return []
    fname = fo.name().split(':')[0]
    fields = {f.base_name(): f for f in fo.fields()}
    # the template's own line labels, in reading order, restricted to labels that are lines of the form
    labelled = []
    for pf in fo.pdf_fields():
        tf = tpl.fields.get(pf.pdf_field_name)
        if tf is None or '.' in pf.field_name:
            continue
        lab = label_of(tf.speak)
        if lab and isinstance(pf, PF.TextPDFField):
            labelled.append((tf.order, lab, pf.field_name, tf))
    labelled.sort()
    order = []
    for _, lab, line, tf in labelled:
        if lab not in order:
            order.append(lab)
    own = {n for n, f in fields.items() if isinstance(f, (F.FloatField, F.IntegerField))}
    order = [l for l in order if l in own or l not in fields]
    rules = []
    for _, lab, line, tf in labelled:
        fld = fields.get(line)
        if fld is None or not isinstance(fld, (F.FloatField, F.IntegerField)):
            continue
        if norm_line(line) != lab or line != lab:
            continue          # only lines whose name is the printed label
        s = tf.speak
        i = s.find(lab + '.')
        body = s[i + len(lab) + 1:].strip() if i >= 0 else s
        r = compile_text(fname, line, body, order, own, f'template:{fo.pdf_file().split("/")[-1]}:{tf.name.split(".")[-1]}')
        rules.extend(r)
    return rules


def compile_text(fname, line, body, order, own, prov):
    rules = []

    def R(kind, fn, operands, text):
        rules.append(Rule(fname, line, kind, fn, operands, prov, text.strip()[:160]))

    def L(lab):
        return '.' + lab

    floor0 = bool(re.search(r'If zero or less, enter (?:0|-0-|zero)', body))
    ceil0 = bool(re.search(r'If greater than zero, enter 0', body))
    # ---- add / combine
    m = re.search(r'\b(?:Add|Combine) lines? ([0-9a-z ,]+?(?: and [0-9a-z]+)?)(?:\.|,? column| This| Enter| Also|$)', body)
    if m and 'far right column' not in body:
        labs = expand_list(m.group(1), order)
        if labs and all(l in own for l in labs) and line not in labs:
            def fn(val, labs=labs):
                x = sum(val(L(l)) for l in labs)
                if floor0:
                    x = max(0.0, x)
                if ceil0:
                    x = min(0.0, x)
                return x
            R('add', fn, [L(l) for l in labs], m.group(0))
    m = re.search(r'\bAdd the amounts on line (\d+)\b', body)
    if m and not rules:
        pre = m.group(1) + '_amount_'
        labs = sorted(l for l in own if l.startswith(pre))
        if labs:
            R('add-rows', lambda val, labs=labs: sum(val(L(l)) for l in labs), [L(l) for l in labs], m.group(0))
    # ---- subtract
    m = re.search(r'(?:If line (\w+) is more than line (\w+), )?[Ss]ubtract line (\w+) from line (\w+)\.?(.{0,200})', body)
    if m and not rules:
        a, b = m.group(3), m.group(4)
        tail = m.group(5)
        cond = m.group(1) is not None
        fl = bool(re.search(r'If zero or less, enter (?:0|-0-)', tail)) or bool(re.search(r'If line \w+ is more than line \w+, enter (?:0|-0-)', tail)) or cond
        nextk = 'next multiple of $1,000' in tail
        if a in own and b in own:
            def fn(val, a=a, b=b):
                x = val(L(b)) - val(L(a))
                if fl:
                    x = max(0.0, x)
                if nextk and x > 0:
                    x = math.ceil(round(x, 6) / 1000.0) * 1000.0
                return x
            R('subtract', fn, [L(a), L(b)], m.group(0))
    # ---- multiply
    m = re.search(r'Multiply line (\w+) by ([0-9.]+) ?% \((0?\.[0-9]+)\)', body)
    if m and not rules and m.group(1) in own:
        k = float(m.group(3))
        R('multiply', lambda val, a=m.group(1), k=k: val(L(a)) * k, [L(m.group(1))], m.group(0))
    m = re.search(r'Multiply line (\w+) by \$([0-9,]+)', body)
    if m and not rules and m.group(1) in own:
        k = _money(m.group(2))
        R('multiply', lambda val, a=m.group(1), k=k: val(L(a)) * k, [L(m.group(1))], m.group(0))
    m = re.search(r'Multiply line (\w+) by line (\w+)', body)
    if m and not rules and m.group(1) in own and m.group(2) in own:
        R('multiply', lambda val, a=m.group(1), b=m.group(2): val(L(a)) * val(L(b)), [L(m.group(1)), L(m.group(2))], m.group(0))
    # ---- smaller of
    m = re.search(r'Enter the smaller of line (\w+) or line (\w+)', body)
    if m and not rules and m.group(1) in own and m.group(2) in own:
        R('smaller', lambda val, a=m.group(1), b=m.group(2): min(val(L(a)), val(L(b))), [L(m.group(1)), L(m.group(2))], m.group(0))
    m = re.search(r'Enter the smaller of line (\w+) or \$([0-9,]+)(?: \(\$([0-9,]+) if married filing separately\))?', body)
    if m and not rules and m.group(1) in own:
        k, kmfs = _money(m.group(2)), (_money(m.group(3)) if m.group(3) else None)

        def fn(val, a=m.group(1), k=k, kmfs=kmfs):
            st = val('1040.filing_status')
            lim = kmfs if (kmfs is not None and getattr(st, 'name', '') == 'MarriedFilingSeparately') else k
            return min(val(L(a)), lim)
        R('smaller-const', fn, [L(m.group(1)), '1040.filing_status'], m.group(0))
    # ---- divide
    m = re.search(r'Divide line (\w+) by line (\w+)', body)
    if m and not rules and m.group(1) in own and m.group(2) in own:
        def fn(val, a=m.group(1), b=m.group(2)):
            d = val(L(b))
            if d == 0:
                return None
            return min(1.0, val(L(a)) / d)
        R('divide', fn, [L(m.group(1)), L(m.group(2))], m.group(0))
    # ---- carry in from another form / another line
    if not rules:
        m = re.search(r'(?:from|of your) ((?:Schedule|Form) [0-9A-Za-z-]+)(?: \(Form 1040\))?(?:(?:,| or)[^.]*?)?, line (\w+)', body) or \
            re.search(r'from line (\w+) of your ((?:Schedule|Form) [0-9A-Za-z-]+)', body)
        if m:
            g = m.groups()
            fw, ln = (g[0], g[1]) if g[0].startswith(('Schedule', 'Form')) else (g[1], g[0])
            tgt = None
            for pat, f in FORM_WORDS:
                if re.match(pat, fw):
                    tgt = f
            if tgt and tgt != fname:
                R('carry-in', lambda val, k=f'{tgt}.{ln}': val(k), [f'{tgt}.{ln}'], m.group(0))
        else:
            m = re.search(r'^[^.]*Enter the amount from line (\w+)\.', body)
            if m and m.group(1) in own:
                R('copy', lambda val, a=m.group(1): val(L(a)), [L(m.group(1))], m.group(0))
    # ---- carry out: "Enter here and on Form 1040 ..., line 20"
    m = re.search(r'(?:[Ee]nter (?:the result |the total |this amount |it )?(?:here and )?on|Also,? enter this amount on|[Ee]nter this amount on) ((?:Schedule|Form) [0-9A-Za-z-]+)(?: \(Form 1040\))?[^.]*?, (?:Part [I ]+, )?line (\w+)', body)
    if m:
        tgt = None
        for pat, f in FORM_WORDS:
            if re.match(pat, m.group(1)):
                tgt = f
        if tgt and tgt != fname:
            rules.append(Rule(fname, line, 'carry-out', None, [f'{tgt}.{m.group(2)}'], prov, m.group(0)[:160]))
    return rules


class Evaluator(object):
    """Evaluates rules on one typed solution {qualified line: value}."""

    def __init__(self, sol):
        self.sol = sol
        self.by_form = {}
        for k in sol:
            self.by_form.setdefault(k.split('.')[0], set()).add(k)

    def instances(self, form):
        return [f for f in self.by_form if f.split(':')[0] == form]

    def check(self, rule, full, places_of):
        """full = form name with instance.  Returns (status, expected, got)
        status in ok|mismatch|skip."""
        key = f'{full}.{rule.line}'
        if key not in self.sol:
            return 'skip', None, None
        missing = []

        def val(ref):
            if ref.startswith('.'):
                k = full + ref
            elif ref == '1040.filing_status':
                k = ref
            else:
                f, l = ref.split('.', 1)
                inst = self.instances(f)
                k = (inst[0] if len(inst) == 1 else f) + '.' + l
            if k not in self.sol:
                missing.append(k)
                return 0.0
            v = self.sol[k]
            if isinstance(v, bool):
                return 1.0 if v else 0.0
            return v
        got = self.sol[key]
        if rule.kind == 'carry-out':
            tgt = rule.operands[0]
            f, l = tgt.split('.', 1)
            if f not in self.by_form or tgt not in self.sol:
                return 'skip', None, None
            # several instances of this form carry into one line: their sum
            base = full.split(':')[0]
            inst = self.instances(base)
            exp = sum(self.sol.get(f'{i}.{rule.line}', 0.0) for i in inst)
            other = self.sol[tgt]
            tol = 0.5 * 10 ** -places_of(tgt) + 0.5 * 10 ** -places_of(key) + 1e-6
            return ('ok' if abs(other - exp) <= tol else 'mismatch'), exp, other
        try:
            exp = rule.fn(val)
        except Exception:
            return 'skip', None, None
        if missing or exp is None:
            return 'skip', None, None
        tol = 0.5 * 10 ** -places_of(key) + 1e-6
        if isinstance(got, (int, float)) and not isinstance(got, bool):
            return ('ok' if abs(float(got) - float(exp)) <= tol else 'mismatch'), exp, got
        return 'skip', None, None
