"""Drives PDFFiller against the stand-in pdftk and decodes what it was handed."""
import configparser
import json
import os
import re
import shutil
import tempfile

from hv import hx
from hv.common import VERIF_DIR

FAKE_DIR = os.path.join(VERIF_DIR, 'hv', 'fakepdftk')


class FillResult(object):
    pass


def fill(solution_cp, year, flatten=True, fail=None):
    """Run PDFFiller.fill() on a solution ConfigParser (without the [habutax]
    section).  Returns FillResult with .exc, .calls (list of dicts: argv, op,
    fdf_bytes), .values (typed values the filler loaded)."""
    tmp = tempfile.mkdtemp(prefix='hv_pdf_')
    r = FillResult()
    r.exc = None
    saved_path = os.environ.get('PATH', '')
    os.environ['PATH'] = FAKE_DIR + os.pathsep + saved_path
    os.environ['HV_PDFTK_LOG'] = os.path.join(tmp, 'log')
    if fail:
        os.environ['HV_PDFTK_FAIL'] = fail
    else:
        os.environ.pop('HV_PDFTK_FAIL', None)
    out = os.path.join(tmp, 'out.pdf')
    p = hx.pdf_filler.PDFFiller(solution_cp, hx.catalogue(year), out, flatten=flatten)
    try:
        try:
            p.fill()
        except BaseException as e:  # noqa
            r.exc = e
        r.filler = p
        r.values = dict(p._values.values) if hasattr(p, '_values') else {}
        r.calls = []
        logdir = os.path.join(tmp, 'log')
        if os.path.isdir(logdir):
            for f in sorted(os.listdir(logdir)):
                if f.endswith('.json'):
                    rec = json.load(open(os.path.join(logdir, f)))
                    if rec.get('fdf'):
                        rec['fdf_bytes'] = open(rec['fdf'], 'rb').read()
                    r.calls.append(rec)
        r.output_exists = os.path.exists(out)
    finally:
        os.environ['PATH'] = saved_path
        os.environ.pop('HV_PDFTK_LOG', None)
        os.environ.pop('HV_PDFTK_FAIL', None)
        shutil.rmtree(tmp, ignore_errors=True)
    return r


# ----------------------------------------------------------------------
class FDFSyntaxError(Exception):
    pass


def parse_fdf(data):
    """A real tokenizer for the FDF body under PDF string syntax: returns the
    list of (T, V) pairs of the /Fields array.  Literal strings: balanced
    parentheses, backslash escapes, octal codes."""
    if isinstance(data, str):
        data = data.encode('latin-1', 'replace')
    i = data.find(b'/Fields')
    if i < 0:
        raise FDFSyntaxError('no /Fields')
    i = data.find(b'[', i)
    pos = i + 1
    n = len(data)
    pairs = []

    def skip_ws(p):
        while p < n and data[p:p + 1] in b' \t\r\n\x0c\x00':
            p += 1
        return p

    def read_string(p):
        assert data[p:p + 1] == b'('
        depth = 1
        p += 1
        out = bytearray()
        while p < n:
            c = data[p:p + 1]
            if c == b'\\':
                nx = data[p + 1:p + 2]
                mp = {b'n': b'\n', b'r': b'\r', b't': b'\t', b'b': b'\b', b'f': b'\f', b'(': b'(', b')': b')', b'\\': b'\\'}
                if nx in mp:
                    out += mp[nx]
                    p += 2
                    continue
                m = re.match(rb'[0-7]{1,3}', data[p + 1:p + 4])
                if m:
                    out.append(int(m.group(0), 8) & 0xff)
                    p += 1 + len(m.group(0))
                    continue
                if nx in (b'\n', b'\r'):
                    p += 2
                    continue
                p += 1        # a backslash before any other char is dropped
                continue
            if c == b'(':
                depth += 1
            elif c == b')':
                depth -= 1
                if depth == 0:
                    return out.decode('latin-1'), p + 1
            out += c
            p += 1
        raise FDFSyntaxError('unterminated string')

    while True:
        pos = skip_ws(pos)
        if pos >= n:
            raise FDFSyntaxError('unterminated /Fields array')
        if data[pos:pos + 1] == b']':
            break
        if data[pos:pos + 2] != b'<<':
            raise FDFSyntaxError(f'expected << at {pos}: {data[pos:pos + 30]!r}')
        pos += 2
        entry = {}
        while True:
            pos = skip_ws(pos)
            if data[pos:pos + 2] == b'>>':
                pos += 2
                break
            m = re.match(rb'/([A-Za-z]+)', data[pos:pos + 20])
            if not m:
                raise FDFSyntaxError(f'expected a key at {pos}: {data[pos:pos + 30]!r}')
            key = m.group(1).decode()
            pos = skip_ws(pos + len(m.group(0)))
            if data[pos:pos + 1] != b'(':
                raise FDFSyntaxError(f'expected a string for /{key} at {pos}: {data[pos:pos + 30]!r}')
            val, pos = read_string(pos)
            if key in entry:
                raise FDFSyntaxError(f'duplicate /{key} in one entry')
            entry[key] = val
        if set(entry) != {'T', 'V'}:
            raise FDFSyntaxError(f'entry with keys {sorted(entry)}')
        pairs.append((entry['T'], entry['V']))
    return pairs


def fill_via_cli(solution_cp_with_habutax, fail=None):
    """The real `habutax fill-pdfs <file> <out>` on a solution file (written
    with ConfigParser.write, [habutax] section included).  Returns FillResult
    with .exc, .calls; .values are NOT available (the filler is inside the CLI)."""
    from hv import cli
    tmp = tempfile.mkdtemp(prefix='hv_pdfcli_')
    r = FillResult()
    saved_path = os.environ.get('PATH', '')
    os.environ['PATH'] = FAKE_DIR + os.pathsep + saved_path
    os.environ['HV_PDFTK_LOG'] = os.path.join(tmp, 'log')
    if fail:
        os.environ['HV_PDFTK_FAIL'] = fail
    else:
        os.environ.pop('HV_PDFTK_FAIL', None)
    try:
        path = os.path.join(tmp, 'solution.ini')
        with open(path, 'w') as f:
            solution_cp_with_habutax.write(f)
        c = cli.run_cli(['fill-pdfs', path, os.path.join(tmp, 'out.pdf')])
        r.exc = c.exc
        r.calls = []
        logdir = os.path.join(tmp, 'log')
        if os.path.isdir(logdir):
            for fn in sorted(os.listdir(logdir)):
                if fn.endswith('.json'):
                    rec = json.load(open(os.path.join(logdir, fn)))
                    if rec.get('fdf'):
                        rec['fdf_bytes'] = open(rec['fdf'], 'rb').read()
                    r.calls.append(rec)
    finally:
        os.environ['PATH'] = saved_path
        os.environ.pop('HV_PDFTK_LOG', None)
        os.environ.pop('HV_PDFTK_FAIL', None)
        shutil.rmtree(tmp, ignore_errors=True)
    return r
