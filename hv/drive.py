"""Drives the real Solver once and packages everything observable."""
import configparser

from hv import hx
from hv.common import h

F, I, FM, S, V = hx.fields, hx.inputs, hx.form, hx.solver, hx.values


class Outcome(object):
    ret = None
    exc = None


def permuted_sort_keys(seed):
    """Replacement for habutax.solver.sort_keys ordering names by a seeded
    hash: permutes the unattempted queue, the met-dependent order and the
    prompt order without touching the solver (schedule perturbation)."""
    def sk(key):
        if isinstance(key, F.Field) or isinstance(key, I.Input):
            key = key.name()
        return h([seed, key], 16)
    return sk


def plain_name_key(key):
    """A cheap replacement order (plain name): the solver re-sorts its whole queue
    with a character-by-character natural key for every scheduled line, which is
    quadratic when a thousand lines are requested at once."""
    if isinstance(key, F.Field) or isinstance(key, I.Input):
        return key.name()
    return key


def config_from(file_map=None, text=None):
    cp = configparser.ConfigParser()
    if text is not None:
        cp.read_string(text)
    for q, val in (file_map or {}).items():
        sec, base = q.split('.', 1)
        if not cp.has_section(sec):
            cp.add_section(sec)
        cp.set(sec, base, val)
    return cp


def final_inputs(cp):
    out = {}
    for sec in cp.sections():
        for k, val in cp.items(sec, raw=True):
            out[f'{sec}.{k}'] = val
    return out


def run_solver(classes, cp, request, field_names=(), answer=None, schedule_seed=None, tracer=None, use_prompt=True, sort_key=None, then_request=None):
    """answer(input_obj, needed_by) -> text or None (refuse)."""
    store = I.InputStore(cp)          # cp: a ConfigParser, or the path of an input file (as the CLI passes it)
    if isinstance(cp, str):
        cp = store.config
    out = Outcome()
    out.prompts = []
    out.initial_inputs = final_inputs(cp)

    def prompt(missing, needed_by):
        name = missing.name()
        nb = [f.name() for f in needed_by]
        text = answer(missing, needed_by) if answer is not None else None
        supplied = text is not None
        out.prompts.append((name, nb, text, supplied))
        if tracer is not None:
            tracer.emit('PROMPT', name, nb, text, supplied)
        return text, supplied
    s = S.Solver(store, classes, prompt=prompt if use_prompt else None)
    out.solver, out.store, out.cp = s, store, cp
    out.request, out.field_names, out.classes = list(request), list(field_names), classes
    saved = S.sort_keys
    if schedule_seed is not None:
        S.sort_keys = permuted_sort_keys(schedule_seed)
    elif sort_key is not None:
        S.sort_keys = sort_key
    try:
        try:
            out.ret = s.solve(list(request), field_names=list(field_names))
            if then_request:
                # a second call on the same Solver asking for more forms (the API works incrementally)
                out.first_ret = out.ret
                try:
                    out.first_solution = s.solution()      # a caller may well look at the intermediate result
                except BaseException:  # noqa
                    out.first_solution = None
                out.ret = s.solve(list(then_request))
                out.request = list(request) + [f for f in then_request if f not in request]
        except BaseException as e:  # noqa  (RecursionError, AssertionError, ...)
            if isinstance(e, (KeyboardInterrupt, SystemExit)):
                raise
            out.exc = e
    finally:
        S.sort_keys = saved
    out.final_inputs = final_inputs(cp)
    if out.exc is None:
        try:
            out.solution = s.solution()
            out.unimplemented = list(s.unimplemented_fields())
            out.unmet_inputs = s.unmet_input_dependencies()
            out.unmet_fields = s.unmet_field_dependencies()
        except BaseException as e:  # noqa
            out.exc = e
    return out


def verdict_class(out):
    if out.exc is not None:
        return 'abort:' + type(out.exc).__name__
    if out.ret is True:
        return 'solved'
    if out.ret is False:
        return 'failed'
    return f'nonbool:{out.ret!r}'


def solution_map(out):
    """{section: {key: text}} of the returned solution."""
    sol = {}
    for sec in out.solution.sections():
        sol[sec] = dict(out.solution.items(sec, raw=True))
    return sol


def find_field(out, key):
    """Locate the Field object for a qualified line name through the public
    solver.forms / Form.fields()."""
    fname, base = key.split('.', 1)
    fo = out.solver.forms.get(fname)
    if fo is None:
        return None
    for f in fo.fields():
        if f.base_name() == base:
            return f
    return None


def class_for(classes, full):
    base = full.split(':')[0]
    for c in classes:
        if c.form_name == base:
            return c
    return None


def required_lines(classes, full):
    c = class_for(classes, full)
    if c is None:
        return None
    inst = full.split(':')[1] if ':' in full else None
    fo = c(instance=inst)
    return [f.name() for f in fo.required_fields()]
