"""C20 - interrupting an interactive solve never loses input already given.
Fault enumeration: for each interactive session (persona x initial file) and
each prompt index k, each kind of interruption is injected into the real CLI
(`habutax solve --prompt-missing --writeback-input`, run in-process); the input
file is then parsed and compared with what it held before plus the answers
given before the fault, and the session is re-run to see what is asked again."""
import configparser
import os
import sys
import re
import tempfile

from hv.common import Result, rng_for, h

ID = 'C20'
LEVEL = 'fault_enumeration'
RULE = ('one evaluation = one faulted CLI session + its re-run; fault points are enumerated exhaustively over the prompt index k of each '
        'explored session for each fault kind (Ctrl-C at the prompt, end of input at the prompt, invalid answer then Ctrl-C, a line definition '
        'raising at its j-th evaluation, an unsupported form reached); distinct_nontrivial = distinct (session, fault kind, k) with k >= 1 answers given')
ASSUMPTIONS = [
    'the CLI is driven in-process: builtins.input is replaced, so Ctrl-C is a KeyboardInterrupt raised by input() exactly as the terminal does',
    'answers stay inside ConfigParser\'s safe alphabet (no %, no leading/trailing blanks)',
    'the answer being typed at the interruption point is not required to persist',
]

BANNER = re.compile(r'----\[ ([^\]]+) \]----')


class InputLookup(object):
    def __init__(self, year):
        from hv import hx
        self.hx = hx
        self.year = year
        self.fm = hx.form_map(year)
        self.cache = {}

    def get(self, name):
        full, base = name.split('.', 1)
        if full not in self.cache:
            b = full.split(':')[0]
            inst = full.split(':')[1] if ':' in full else None
            fo = self.fm[b](instance=inst)
            self.cache[full] = {i.base_name(): i for i in fo.inputs()}
        return self.cache[full][base]


class Fault(Exception):
    pass


class RunawayPrompt(BaseException):
    """The prompt loop called input() again and again at the same question
    although input had ended / the user had interrupted: a logical bound, not a
    wall-clock one."""


MAX_TIMES_SAME_QUESTION = 8
MAX_CALLS_PER_QUESTION = 60


def session(year, forms, path, answer_fn, fault=None, extra_args=(), on_prompt=None):
    """Run one interactive CLI session.  fault = (kind, k).  Returns
    (cli result, [(name, text) answers given in order])."""
    from hv import cli, hx
    given = []
    state = {'n': 0, 'cur': None, 'pending_invalid': False}

    def inp(prompt):
        state['calls'] = state.get('calls', 0) + 1
        if on_prompt is not None:
            on_prompt(prompt)
        if BANNER.search(prompt):
            state['calls'] = 1
        elif state['calls'] > MAX_CALLS_PER_QUESTION:
            raise RunawayPrompt(f'input() was called {state["calls"]} times for {state["cur"]} without the session ending')
        m = BANNER.search(prompt)
        if m:
            state['cur'] = m.group(1)
            state['n'] += 1
            reask = False
            # the same question put again and again (each time as a fresh question) is the same runaway loop
            asked_ = state.setdefault('asked', {})
            asked_[state['cur']] = asked_.get(state['cur'], 0) + 1
            if asked_[state['cur']] > MAX_TIMES_SAME_QUESTION:
                raise RunawayPrompt(f'{state["cur"]} was asked {asked_[state["cur"]]} times in one session')
        else:
            reask = True
        k = state['n']
        if fault and fault[0] in ('sigint', 'eof', 'invalid-sigint') and k == fault[1]:
            if fault[0] == 'sigint':
                raise KeyboardInterrupt()
            if fault[0] == 'eof':
                raise EOFError()
            if not reask:
                return '\x07 not a valid answer \x07' if not isinstance(answer_fn.lookup.get(state['cur']), hx.inputs.StringInput) or \
                    isinstance(answer_fn.lookup.get(state['cur']), (hx.inputs.EnumInput, hx.inputs.RegexInput, hx.inputs.SSNInput)) else _raise(KeyboardInterrupt())
            raise KeyboardInterrupt()
        text = answer_fn(state['cur'])
        given.append((state['cur'], text))
        return text
    args = ['solve', path, '--year', str(year), '--prompt-missing', '--writeback-input']
    for f in forms:
        args += ['--form', f]
    args += list(extra_args)
    r = cli.run_cli(args, input_fn=inp)
    r.n_prompts = state['n']
    return r, given


def _raise(e):
    raise e


def parse(path):
    cp = configparser.ConfigParser()
    with open(path, encoding="utf-8") as f:
        cp.read_file(f)
    out = {}
    for s in cp.sections():
        for k, v in cp.items(s, raw=True):
            out[f'{s}.{k}'] = v
    return out


def plan(tier, seed):
    KG = [['sigint'], ['eof'], ['invalid-sigint'], ['line-raises', 'unsupported-form']]
    if tier == 'quick':
        return [{'year': y, 'family': f, 'idx': i, 'kinds': kg} for i, (y, f) in
                enumerate([(2023, 'F0'), (2022, 'F1'), (2021, 'F2'), (2023, 'F8'), (2022, 'F4'), (2023, 'F3'), (2021, 'F9'), (2022, 'F10')]) for kg in KG] + \
               [{'kind': 'pty', 'year': y, 'family': f, 'idx': 100 + i, 'nk': 1} for i, (y, f) in enumerate([(2023, 'F0'), (2021, 'F3')])]
    sp = []
    from hv import scen
    i = 0
    for y in (2021, 2022, 2023):
        for f in scen.FAMILIES:
            for rep in range(3):
                for kg in KG:
                    sp.append({'year': y, 'family': f, 'idx': i, 'rep': rep, 'kinds': kg})
                i += 1
            sp.append({'kind': 'pty', 'year': y, 'family': f, 'idx': 1000 + i, 'nk': 6})
    return sp


def run_shard(spec, tier, seed):
    if spec.get('kind') == 'pty':
        return run_pty_shard(spec, tier, seed)
    from hv import hx, scen, drive
    res = Result()
    year, fam = spec['year'], spec['family']
    rng = rng_for('C20', seed, spec)
    lookup = InputLookup(year)
    base = scen.Persona(year, fam, f'c20:{seed}:{spec["idx"]}')
    # 0. a full un-faulted session to learn the answers and the number of prompts
    tmp = tempfile.mkdtemp(prefix='hv_c20_')
    try:
        def mk_answer(p):
            def a(name):
                return p.answer(lookup.get(name))
            a.lookup = lookup
            return a
        path = os.path.join(tmp, 'full.ini')
        p0 = scen.Persona(year, fam, base.key)
        r0, given0 = session(year, p0.forms(), path, mk_answer(p0))
        n = r0.n_prompts
        if spec['kinds'][0] == 'sigint':
            res.count('sessions')
            res.count('session_prompts', n)
        full_answers = dict(given0)
        if n < 5:
            res.inconclusive.append(f'session {spec} asked only {n} questions')
            return res
        # initial file: a random third of the answers is already there
        names = [nm for nm, _ in given0]
        pre = set(rng.sample(names, len(names) // 3)) if spec.get('rep', 0) != 1 else set()
        initial = {nm: full_answers[nm] for nm in names if nm in pre}
        # learn the number of prompts with that initial file
        path = os.path.join(tmp, 'probe.ini')
        write_ini(path, initial)
        p1 = scen.Persona(year, fam, base.key, overrides=full_answers)
        r1, given1 = session(year, p1.forms(), path, mk_answer(p1))
        n1 = r1.n_prompts
        res.sample({'session': spec, 'forms': p0.forms(), 'prompts': n1, 'initial_keys': len(initial), 'outcome': (r1.stdout.strip().splitlines() or [''])[0][:60] if not r1.exc else repr(r1.exc)})
        kinds = [k for k in ('sigint', 'eof', 'invalid-sigint') if k in spec['kinds']]
        ks = range(1, n1 + 1)
        for kind in kinds:
            for k in ks:
                one_fault(res, spec, year, p1.forms(), tmp, initial, full_answers, lookup, (kind, k), fam, base.key)
        if 'line-raises' in spec['kinds']:
            # a line definition raising at its j-th evaluation
            total_evals = count_evals(year, p1.forms(), tmp, initial, full_answers, lookup, fam, base.key)
            js = sorted(set([1, 2, total_evals] + [rng.randint(1, max(1, total_evals)) for _ in range(25 if tier == 'quick' else 80)]))
            for j in js:
                one_fault(res, spec, year, p1.forms(), tmp, initial, full_answers, lookup, ('line-raises', j), fam, base.key)
        if 'unsupported-form' in spec['kinds']:
            for gate in ('1040.need_8962', '1040.number_1099-oid'):
                fa = dict(full_answers)
                fa[gate] = 'yes' if 'need' in gate else '1'
                ini = dict(initial)
                ini.pop(gate, None)
                one_fault(res, spec, year, p1.forms(), tmp, ini, fa, lookup, ('unsupported-form', gate), fam, base.key)
    finally:
        import shutil
        shutil.rmtree(tmp, ignore_errors=True)
    return res


def write_ini(path, kv, annotated=False):
    """annotated: the file as a user keeps it - the `list-form-inputs` template with
    its comment lines still in place and notes at the end.  Comments do not survive a
    write-back, so the rewritten file is much shorter than what was on disk."""
    cp = configparser.ConfigParser()
    for q, v in kv.items():
        s, b = q.split('.', 1)
        if not cp.has_section(s):
            cp.add_section(s)
        cp.set(s, b, v)
    with open(path, 'w') as f:
        cp.write(f)
    if annotated:
        out = ['# my tax inputs - do not lose!']
        for line in open(path).read().splitlines():
            if line and not line.startswith('['):
                out.append('# ' + ('what this box means, copied from the template ' * 2))
            out.append(line)
        out += ['', '[zz_notes]'] + [f'note_{k} = remember to ask the accountant about item {k} before filing' for k in range(40)]
        out += ['mailing = 12 Main St', '    Apt 4 (rear)', '    Durham: NC = 27701']      # a value over several lines
        out += ['preparer = José Muñoz-Ångström, Zürich']                                         # text beyond ASCII
        out += ['bank = 5% Savings Bank (statement not received yet)', 'reminder = 100% of the refund goes to savings; see %(folder)s']
        with open(path, 'w', encoding='utf-8') as f:
            f.write('\n'.join(out) + '\n')


def count_evals(year, forms, tmp, initial, full_answers, lookup, fam, key):
    from hv import hx, scen
    F = hx.fields
    n = [0]
    orig = F.TypedField.value

    def counting(self, i, v):
        n[0] += 1
        return orig(self, i, v)
    F.TypedField.value = counting
    try:
        path = os.path.join(tmp, 'cnt.ini')
        write_ini(path, initial)
        p = scen.Persona(year, fam, key, overrides=full_answers)

        def a(name):
            return p.answer(lookup.get(name))
        a.lookup = lookup
        session(year, forms, path, a)
    finally:
        F.TypedField.value = orig
    return n[0]


def one_fault(res, spec, year, forms, tmp, initial, full_answers, lookup, fault, fam, key):
    from hv import hx, scen
    F = hx.fields
    path = os.path.join(tmp, 'f.ini')
    annotated = fault[0] in ('sigint', 'eof', 'unsupported-form') and isinstance(fault[1], int) and fault[1] % 2 == 1
    if fault[0] in ('sigint', 'eof') and isinstance(fault[1], int) and fault[1] % 3 == 0:
        # the file also holds a value that does not validate (the user typed the choice in quotes, wrote "two" for a count ...):
        # whatever the run does about it, the line the user wrote must still be in the file afterwards
        I_ = hx.inputs
        cand = [q for q in sorted(initial) if isinstance(lookup.get(q), (I_.BooleanInput, I_.IntegerInput, I_.FloatInput, I_.EnumInput))]
        if cand:
            q = cand[fault[1] % len(cand)]
            initial = dict(initial)
            initial[q] = f'"{initial[q]}"' if isinstance(lookup.get(q), I_.EnumInput) and initial[q] else 'not sure yet'
            res.count('sessions_with_invalid_value_in_file')
    # the file named the way a wrapper script or an IDE passes it on, with a leading `~` nobody expanded: whatever the program
    # makes of the name, the file it reads is the file it writes the answers to, and the re-run (same name) finds them
    tilde = fault[0] in ('sigint', 'eof') and isinstance(fault[1], int) and fault[1] % 7 == 4
    path_arg = path
    saved_cwd, saved_home = os.getcwd(), os.environ.get('HOME')
    if tilde:
        os.makedirs(os.path.join(tmp, '~'), exist_ok=True)
        os.makedirs(os.path.join(tmp, 'home'), exist_ok=True)
        path = os.path.join(tmp, '~', 'f.ini')
        path_arg = os.path.join('~', 'f.ini')
        res.count('sessions_with_unexpanded_tilde_in_file_name')
    write_ini(path, initial, annotated=annotated)
    if annotated:
        res.count('sessions_from_annotated_file')
    before = parse(path)
    p = scen.Persona(year, fam, key, overrides=full_answers)

    def a(name):
        t_ = p.answer(lookup.get(name))
        inp_ = lookup.get(name)
        if isinstance(fault[1], int) and fault[1] % 4 == 1 and type(inp_) is hx.inputs.StringInput and t_.strip():
            t_ = t_ + ', Jr. & Co. ($5 fee)'        # free text is stored as typed: commas, dollar signs, ampersands
        if isinstance(fault[1], int) and fault[1] % 4 == 3 and type(inp_) is hx.inputs.StringInput and t_.strip():
            # text pasted from a document: a line/paragraph separator, a form feed, a next-line character inside it - one line to the
            # prompt, one line in the file, and one line again when the file is read
            t_ = t_ + ['\u2028', '\x0c', '\x85', '\u2029', '\x0b'][(fault[1] // 4) % 5] + 'rear'
        return t_
    a.lookup = lookup
    kind = fault[0]
    orig = F.TypedField.value
    if kind == 'line-raises':
        n = [0]

        def failing(self, i, v):
            n[0] += 1
            if n[0] == fault[1]:
                raise Fault(f'injected failure in {self.name()} at evaluation {fault[1]}')
            return orig(self, i, v)
        F.TypedField.value = failing
    try:
        extra = ()
        if kind in ('sigint', 'eof') and isinstance(fault[1], int) and fault[1] % 5 == 2:
            # ... and the place the results should go to cannot be written (a directory that does not exist): one more thing
            # that goes wrong after the questions - the answers given are in the input file all the same
            extra = ('--solution', os.path.join(tmp, 'no', 'such', 'directory', 'solution.ini'))
            res.count('sessions_with_unwritable_solution_path')
        if tilde:
            os.chdir(tmp)
            os.environ['HOME'] = os.path.join(tmp, 'home')
        r, given = session(year, forms, path_arg, a, fault=fault if kind in ('sigint', 'eof', 'invalid-sigint') else None, extra_args=extra)
    finally:
        F.TypedField.value = orig
        if tilde:
            os.chdir(saved_cwd)
            os.environ['HOME'] = saved_home if saved_home is not None else ''
    res.evaluations += 1
    res.count('faults_' + kind)
    rp = {'engine': 'cli-fault', 'shard': spec, 'fault': list(fault), 'forms': forms, 'initial': initial, 'answers_before_fault': given[-5:]}
    tag = f'C20|{kind}'
    if isinstance(r.exc, RunawayPrompt):
        res.violation(f'{tag}|prompt-loop-does-not-end', f'{fault}: {r.exc}', rp)
        return
    if kind in ('eof', 'line-raises', 'unsupported-form') and r.exc is None and kind != 'line-raises':
        res.count('fault_not_reached')
    if kind == 'line-raises' and not isinstance(r.exc, Fault):
        res.count('fault_not_reached')
    try:
        after = parse(path)
    except Exception as e:
        res.violation(f'{tag}|file-not-well-formed', f'{fault}: input file unparseable afterwards: {type(e).__name__}: {str(e)[:100]}', rp)
        return
    lost0 = [k for k, v in before.items() if after.get(k) != v]
    if lost0:
        res.violation(f'{tag}|lost-initial-value', f'{fault}: the file lost or changed values it held before: {lost0[:4]}', rp)
    lost = [(nm, t) for nm, t in given if after.get(_lk(nm)) != t.strip()]
    if lost:
        res.violation(f'{tag}|lost-answer', f'{fault}: {len(given)} answers were given before the interruption; missing afterwards: {lost[:3]}', rp)
    if given:
        res.distinct.add(f'{spec["idx"]}|{kind}|{fault[1]}')
    res.count('answers_checked', len(given))
    # re-run: nothing already given may be asked again
    asked = []
    p2 = scen.Persona(year, fam, key, overrides=full_answers)

    def a2(name):
        asked.append(name)
        return p2.answer(lookup.get(name))
    a2.lookup = lookup
    if tilde:
        os.chdir(tmp)
        os.environ['HOME'] = os.path.join(tmp, 'home')
    try:
        r2, given2 = session(year, forms, path_arg, a2)
    finally:
        if tilde:
            os.chdir(saved_cwd)
            os.environ['HOME'] = saved_home if saved_home is not None else ''
    again = [nm for nm in asked if nm in {g[0] for g in given} or _lk(nm) in before]
    res.count('reruns')
    import configparser as _cp
    if isinstance(r2.exc, (_cp.Error, UnicodeError)):
        res.violation(f'{tag}|rerun-cannot-read-the-file', f'{fault}: the re-run cannot read the file the interrupted session wrote back: {type(r2.exc).__name__}: {str(r2.exc)[:120]}', rp)
    if again:
        res.violation(f'{tag}|asked-again', f'{fault}: the re-run asked again for {again[:4]}', rp)


def _lk(name):
    s, b = name.split('.', 1)
    return f'{s}.{b.lower()}'


def finalize(res, tier):
    c = res.counters
    for k in ('faults_sigint', 'faults_eof', 'faults_invalid-sigint', 'faults_line-raises', 'faults_unsupported-form'):
        if c.get(k, 0) < 5:
            res.inconclusive.append(f'{k} = {c.get(k, 0)}')
    if c.get('answers_checked', 0) < 1000:
        res.inconclusive.append('fewer than 1000 answers checked for persistence')
    if c.get('pty_faults_sigint', 0) < 2 or c.get('pty_faults_eof', 0) < 2:
        res.inconclusive.append('real-terminal faults not exercised')
    return {'exhaustive': True, 'fault_points': {k[7:]: v for k, v in c.items() if k.startswith('faults_')}}


# ------------------------------------------------------------------ real process, real terminal
def pty_session(year, forms, path, answer_fn, fault=None, timeout=300):
    """`python -m habutax solve ... --prompt-missing --writeback-input` as a child
    process on a pseudo-terminal.  fault = ('sigint'|'eof', k): at the k-th
    question a real Ctrl-C (the terminal raises SIGINT) or Ctrl-D (end of
    input) is typed.  Returns (exit status or None on watchdog, answers given)."""
    import os
    import pty
    import select
    import time
    from hv.common import REPO
    args = ['/venv/bin/python', '-m', 'habutax', 'solve', path, '--year', str(year), '--prompt-missing', '--writeback-input']
    for f in forms:
        args += ['--form', f]
    env = dict(os.environ, PYTHONPATH=REPO, PYTHONDONTWRITEBYTECODE='1', PYTHONWARNINGS='ignore')
    # the input file usually does not live on the file system of the temporary directory (a home directory against a tmpfs /tmp):
    # give the child a temporary directory on another device than the input file when this machine has one
    other = other_device_dir(path)
    if other:
        env['TMPDIR'] = other
    pid, fd = pty.fork()
    if pid == 0:
        # a check started as a background job of a non-interactive shell inherits SIGINT/SIGQUIT *ignored*,
        # and Python then never raises KeyboardInterrupt: give the child the disposition a terminal user has
        import signal
        signal.signal(signal.SIGINT, signal.SIG_DFL)
        signal.signal(signal.SIGQUIT, signal.SIG_DFL)
        os.chdir('/tmp')
        os.execve(args[0], args, env)
    given = []
    buf = b''
    n = 0
    t0 = time.time()
    status = None
    fault_sent = []
    try:
        while True:
            if time.time() - t0 > timeout:
                if os.environ.get('HV_PTY_DEBUG'):
                    sys.stderr.write(f'PTY-WATCHDOG fault={fault} n={n} fault_sent={len(fault_sent)} tail={buf.decode("utf-8", "replace")[-400:]!r}\n')
                os.kill(pid, 9)
                os.waitpid(pid, 0)
                return None, given
            r, _, _ = select.select([fd], [], [], 0.5)
            if fd in r:
                try:
                    chunk = os.read(fd, 65536)
                except OSError:
                    chunk = b''
                if not chunk:
                    break
                buf += chunk
            else:
                done = os.waitpid(pid, os.WNOHANG)
                if done[0] == pid:
                    status = os.waitstatus_to_exitcode(done[1])
                    pid = None
                    break
                # the key stroke can be swallowed while the child is (re)configuring the terminal:
                # a user would simply press it again
                if fault_sent and time.time() - fault_sent[0] > 10.0 and len(fault_sent) < 8:
                    os.write(fd, b'\x03' if fault[0] == 'sigint' else b'\x04')
                    fault_sent.insert(0, time.time())
                continue
            text = buf.decode('utf-8', 'replace')
            if text.rstrip(' ').endswith('(Ctrl-C to abort):') or text.rstrip(' ').endswith('try again?:'):
                m = BANNER.findall(text)
                name = m[-1] if m else None
                if text.rstrip(' ').endswith('(Ctrl-C to abort):'):
                    n += 1
                buf = b''
                if fault and n == fault[1]:
                    if len(fault_sent) > 40:
                        # the key was pressed forty times at this question and the program keeps asking: it does not take the hint
                        os.kill(pid, 9)
                        os.waitpid(pid, 0)
                        pid = None
                        return 'keeps-asking', given
                    os.write(fd, b'\x03' if fault[0] == 'sigint' else b'\x04')
                    fault_sent.insert(0, time.time())
                    continue
                ans = answer_fn(name)
                given.append((name, ans))
                os.write(fd, ans.encode() + b'\n')
        if pid is not None:
            _, st = os.waitpid(pid, 0)
            status = os.waitstatus_to_exitcode(st)
    finally:
        try:
            os.close(fd)
        except OSError:
            pass
    return status, given


def other_device_dir(path):
    """a writable directory on another device than `path`'s directory, or None"""
    try:
        dev = os.stat(os.path.dirname(os.path.abspath(path))).st_dev
    except OSError:
        return None
    for d in ('/dev/shm', '/run/shm', '/var/tmp', '/tmp', os.path.expanduser('~')):
        try:
            if os.path.isdir(d) and os.access(d, os.W_OK) and os.stat(d).st_dev != dev:
                return d
        except OSError:
            continue
    return None


def run_pty_shard(spec, tier, seed):
    from hv import scen
    res = Result()
    year, fam = spec['year'], spec['family']
    rng = rng_for('C20pty', seed, spec)
    lookup = InputLookup(year)
    key = f'c20pty:{seed}:{spec["idx"]}'
    tmp = tempfile.mkdtemp(prefix='hv_c20p_')
    try:
        p0 = scen.Persona(year, fam, key)

        def mk(p):
            def a(name):
                return p.answer(lookup.get(name))
            a.lookup = lookup
            return a
        path = os.path.join(tmp, 'full.ini')
        r0, given0 = session(year, p0.forms(), path, mk(p0))
        n = r0.n_prompts
        full = dict(given0)
        ks = sorted(set([1, 2, n] + [rng.randint(1, n) for _ in range(spec['nk'])]))
        hung = 0
        for kind in ('sigint', 'eof'):
            for k in ks:
                path = os.path.join(tmp, 'p.ini')
                write_ini(path, {})
                p = scen.Persona(year, fam, key, overrides=full)
                status, given = pty_session(year, p.forms(), path, mk(p), fault=(kind, k))
                res.evaluations += 1
                res.count('pty_faults_' + kind)
                if other_device_dir(path):
                    res.count('pty_sessions_with_tmpdir_on_another_device')
                rp = {'engine': 'pty-fault', 'shard': spec, 'fault': [kind, k]}
                if status == 'keeps-asking':
                    res.violation(f'C20|pty-{kind}|keeps-asking-after-the-key', f'real terminal: {"Ctrl-C" if kind == "sigint" else "Ctrl-D (end of input)"} pressed forty times at question {k} and the program goes on asking the same question', rp)
                    continue
                if status is None:
                    res.inconclusive.append(f'pty session {spec} {kind}@{k} hit the watchdog')
                    hung = hung + 1
                    if hung >= 2:
                        return res      # do not spend the shard's whole budget on a terminal that does not react
                    continue
                try:
                    after = parse(path)
                except Exception as e:
                    res.violation(f'C20|pty-{kind}|file-not-well-formed', f'real terminal {kind} at question {k}: input file unparseable: {e}', rp)
                    continue
                given = [(nm, t) for nm, t in given if nm is not None]
                lost = [(nm, t) for nm, t in given if after.get(_lk(nm)) != t.strip()]
                res.count('answers_checked', len(given))
                if given:
                    res.distinct.add(f'pty|{spec["idx"]}|{kind}|{k}')
                if lost:
                    res.violation(f'C20|pty-{kind}|lost-answer', f'real terminal {kind} at question {k}: {len(given)} answers typed before; missing afterwards: {lost[:3]}', rp)
                if len(res.samples) < 1:
                    res.sample({'session': spec, 'fault': [kind, k], 'exit_status': status, 'answers_typed_before': len(given), 'keys_in_file_after': len(after)})
    finally:
        import shutil
        shutil.rmtree(tmp, ignore_errors=True)
    return res
