"""C02 - every computed line equals what the official form instructs for it.
Per-line rule evaluation on each produced solution: the rule is the official
wording of the line parsed from the year's bundled template (hv/instr.py) or a
cited transcription (spec/transcribed.py); operands are the other lines of the
same solution."""
import os
import sys

from hv.common import Result, VERIF_DIR

ID = 'C02'
LEVEL = 'exploration'
RULE = ('one evaluation = one rule instance evaluated on one produced solution (solved or partial); non-trivial = the line and at least one '
        'operand are non-zero; distinct_nontrivial = distinct (year, form, line) rules with at least one non-trivial instance; rules never '
        'seen non-trivially are listed as not observed')
ASSUMPTIONS = [
    'parsed rules come from the accessibility text of the template field the line is written into; transcribed rules (spec/transcribed.py) are weaker evidence and labelled',
    'a rule is evaluated only when the line and all its operands are in the solution; blank lines count as zero, as on paper',
    'tolerance: half a unit of the line\'s last decimal place',
]


# a carry is only made when the source schedule is actually used for the return
CARRY_GUARDS = {
    ('1040_sa', '17'): lambda sol: bool(sol.get('1040.itemizing')),      # Schedule A is attached only when itemizing
}


class Skip(Exception):
    pass


class Ctx(object):
    def __init__(self, year, sol, full, status, ev):
        self.year, self.sol, self.full, self.status, self.ev = year, sol, full, status, ev
        self.cross = False

    def _num(self, v):
        if isinstance(v, bool):
            return v
        return v

    def v(self, line):
        k = f'{self.full}.{line}'
        if k not in self.sol:
            raise Skip(k)
        return self.sol[k]

    def has(self, key):
        return key in self.sol

    def x(self, key):
        self.cross = True
        f, l = key.split('.', 1)
        inst = self.ev.instances(f)
        k = (inst[0] if len(inst) == 1 else f) + '.' + l
        if k not in self.sol:
            raise Skip(k)
        return self.sol[k]

    def opt(self, key, default=0.0):
        try:
            return self.x(key)
        except Skip:
            return default

    def sum(self, base, line):
        self.cross = True
        n_key = f'1040.number_{base}'
        secs = self.ev.instances(base)
        tot = 0.0
        for s in secs:
            k = f'{s}.{line}'
            if k not in self.sol:
                raise Skip(k)
            tot += self.sol[k]
        return tot

    def amount(self, name):
        from hv import statutory as st
        a = st.amount(name, self.year, self.status)
        if a is None:
            raise Skip(name)
        return a

    def tax(self, x):
        from hv import statutory as st
        kind, val = st.reference_tax(self.year, self.status, str(x))
        return float(val)


def plan(tier, seed):
    from hv import scen
    n = 10 if tier == 'quick' else 500
    sp = []
    for y in (2021, 2022, 2023):
        for g in ([scen.FAMILIES[0:3], scen.FAMILIES[3:6], scen.FAMILIES[6:9], scen.FAMILIES[9:12]] if tier == 'quick' else [[f] for f in scen.FAMILIES]):
            sp.append({'year': y, 'families': g, 'n': n})
        sp.append({'kind': 'directed', 'year': y, 'n': 2 if tier == 'quick' else 40})
    return sp


_RULES = {}


def rules_for(year):
    if year in _RULES:
        return _RULES[year]
    from hv import hx, instr
    sys.path.insert(0, os.path.join(VERIF_DIR, 'spec'))
    import transcribed
    parsed, places = {}, {}
    for cls in hx.catalogue(year):
        fo = cls(instance=hx.instances_for(cls)[0])
        for f in fo.fields():
            if isinstance(f, hx.fields.FloatField):
                s = f.to_string(0.0)
                places[f'{cls.form_name}.{f.base_name()}'] = len(s.split('.')[1]) if '.' in s else 0
            else:
                places[f'{cls.form_name}.{f.base_name()}'] = 0
        for r in instr.parsed_rules(year, fo):
            parsed.setdefault((r.form, r.line), []).append(r)
    trans = {}
    for form, line, years, fn, cite in transcribed.RULES:
        if year in years:
            trans.setdefault((form, line), []).append((fn, cite))
    # a transcription overrides the parsed arithmetic of the same line (conditional wording), carries stay
    for k in trans:
        if k in parsed:
            parsed[k] = [r for r in parsed[k] if r.kind == 'carry-out']
    _RULES[year] = (parsed, trans, places)
    return _RULES[year]


def required_for(year):
    sys.path.insert(0, os.path.join(VERIF_DIR, 'spec')) if os.path.join(VERIF_DIR, 'spec') not in sys.path else None
    import transcribed as T
    return [r for r in T.REQUIRED if year in r[2]]


def check_solution(res, year, sol, label, rp, base_keys=None, solved=True):
    from hv import instr, statutory as st
    parsed, trans, places = rules_for(year)
    ev = instr.Evaluator(sol)
    fs = sol.get('1040.filing_status')
    status = st.STATUS_BY_MEMBER.get(getattr(fs, 'name', None))

    def places_of(key):
        f, l = key.split('.', 1)
        return places.get(f'{f.split(":")[0]}.{l}', 2)

    for full in list(ev.by_form):
        base = full.split(':')[0]
        for (form, line), rs in parsed.items():
            if form != base:
                continue
            for r in rs:
                if r.kind == 'carry-out' and (form, line) in CARRY_GUARDS and not CARRY_GUARDS[(form, line)](sol):
                    continue
                if base_keys is not None and not (f'{full}.{line}' in base_keys and r.kind == 'carry-in'):
                    continue        # second pass: only carries INTO lines the return uses (the operand may be a line the code failed to read)
                status_, exp, got = ev.check(r, full, places_of)
                if status_ == 'skip':
                    continue
                res.evaluations += 1
                res.count('rule_instances_parsed')
                rk = f'{year}|{form}.{line}|{r.kind}'
                res.add('rules_evaluated', rk)
                if abs(float(got)) > 0 or abs(float(exp)) > 0:
                    res.distinct.add(rk)
                if status_ == 'mismatch':
                    res.violation(f'C02|{year}|{form}.{line}|{r.kind}', f'{label}: {full}.{line} = {got} but its instruction "{r.text}" gives {exp:.2f} ({r.provenance})', rp)
        if base_keys is None and solved:      # a return that did not solve stopped somewhere: nothing is required of what it did not reach
            for form, line, years, cond, cite in required_for(year):
                if form != base:
                    continue
                c = Ctx(year, sol, full, status, ev)
                try:
                    need = cond(c)
                except Skip:
                    continue
                if not need:
                    continue
                res.evaluations += 1
                res.count('rule_instances_required_line')
                res.distinct.add(f'{year}|{form}.{line}|required')
                want = line if '.' in line else f'{full}.{line}'       # 'form.line' names a line of another (single-instance) form
                if want not in sol:
                    res.violation(f'C02|{year}|{form}.{line}|required-line-absent', f'{label}: {want} is not in the solved return although the instructions require it here ({cite})', rp)
        if status is None:
            continue
        for (form, line), lst in trans.items():
            if form != base:
                continue
            key = f'{full}.{line}'
            if key not in sol:
                continue
            for fn, cite in lst:
                c = Ctx(year, sol, full, status, ev)
                try:
                    exp = fn(c)
                except Skip:
                    continue
                except (TypeError, KeyError, ZeroDivisionError):
                    continue
                if base_keys is not None and not (key in base_keys and c.cross):
                    continue
                got = sol[key]
                if isinstance(got, bool) or not isinstance(got, (int, float)):
                    continue
                res.evaluations += 1
                res.count('rule_instances_transcribed')
                rk = f'{year}|{form}.{line}|transcribed'
                res.add('rules_evaluated', rk)
                if abs(float(got)) > 0 or abs(float(exp)) > 0:
                    res.distinct.add(rk)
                tol = 0.5 * 10 ** -places_of(key) + 1e-6
                if abs(float(got) - float(exp)) > tol:
                    res.violation(f'C02|{year}|{form}.{line}|transcribed', f'{label}: {key} = {got} but the instruction gives {float(exp):.2f} (transcribed: {cite})', rp)


def directed_ira(res, year, p, sol, label, rp):
    """Form 1040 lines 4a/4b (transcribed, with scenario knowledge): when every
    IRA distribution falls under exception 2 (Form 8606), each person's taxable
    amount comes from that person's own Form 8606 and line 4b is their sum; line
    4a is the sum of the IRA distributions (Form 1040 instructions, lines 4a and 4b)."""
    if getattr(p, 'ira_mode', None) != '8606' or '1040.4b' not in sol:
        return
    owners = {}
    for d in p.f1099r:
        if d['ira'] and d['box_1'] > 0:
            who = 'spouse' if d['belongs_to'] == 'spouse' else 'you'
            owners[who] = owners.get(who, 0.0) + d['box_1']
    if not owners:
        return
    res.evaluations += 1
    res.count('rule_instances_transcribed')
    res.distinct.add(f'{year}|1040.4b|transcribed-directed')
    missing = [w for w in owners if f'8606:{w}.taxable_amount' not in sol]
    if missing:
        res.violation(f'C02|{year}|1040.4b|transcribed-directed', f'{label}: {missing} received IRA distributions under exception 2 but no Form 8606 of their own is in the solution '
                      f'(forms present: {sorted(k.split(".")[0] for k in sol if k.startswith("8606"))[:2]})', rp)
        return
    exp = sum(sol[f'8606:{w}.taxable_amount'] for w in owners)
    if abs(sol['1040.4b'] - exp) > 0.011:
        res.violation(f'C02|{year}|1040.4b|transcribed-directed', f'{label}: 1040.4b = {sol["1040.4b"]} but the Forms 8606 of {sorted(owners)} give taxable amounts adding to {exp:.2f}', rp)
    if '1040.4a' in sol and abs(sol['1040.4a'] - sum(owners.values())) > 0.011:
        res.violation(f'C02|{year}|1040.4a|transcribed-directed', f'{label}: 1040.4a = {sol["1040.4a"]} but IRA distributions add to {sum(owners.values()):.2f}', rp)


def directed_personas(year, seed, n):
    from hv import scen
    from hv import statutory as st
    from hv.common import rng_for
    out = list(scen.directed_personas(year, seed, n))
    # the qualified-dividend worksheet under different filing statuses with the SAME amounts on its lines 1 and 5, solved one after
    # the other in this process (wages set so that the taxable income coincides): a tax remembered by amount alone serves the
    # second filer the first one's column.  Lines 22 / 24 are compared with the published schedule of the filer's own status
    for T_ in ((61250.0, 187300.0) if n <= 3 else (61250.0, 43210.0, 97730.0, 187300.0, 402000.0)):
        for st_ in ('S', 'HOH', 'MFJ', 'MFS'):
            sd_ = st.amount('standard_deduction', year, st_)
            if sd_ is None:
                continue
            pq = scen.plain_persona(year, st_, T_ - 5000.0 + float(sd_), key=f'dirsameamt:{st_}:{int(T_)}', deps_ctc=1 if st_ == 'HOH' else 0, n_div=1,
                                    divs=[{'box_1a': 5000.0, 'box_1b': 3000.0, 'box_2a': 0.0, 'box_4': 0.0, 'box_5': 0.0, 'box_7': 0.0, 'box_16_1': 0.0, 'box_14_1': 'NC', 'belongs_to': 'taxpayer'}])
            out.append(('F2s', pq))
    if year == 2021:
        # Schedule 8812 line 5 worksheet: families whose line 5 (the 2021 increase) is above the status amount of line 6, with the
        # income walking through the first phase-out in $1,000 steps - "the smaller of line 7 or line 10" is decided by line 7 only there
        for st_, kids in (('HOH', 3), ('S', 4), ('MFJ', 8)):
            base_ = {'HOH': 112500.0, 'S': 75000.0, 'MFJ': 150000.0}[st_]
            cap_ = kids * 1600.0
            for step in range(0, 6 if n <= 3 else 14):
                w_ = base_ + (cap_ / 0.05) - 6000.0 + 1500.0 * step + 400.0
                pk = scen.plain_persona(year, st_, w_, key=f'dirctc5:{st_}:{step}', deps_ctc=kids)
                pk.n_under6 = kids
                out.append(('F1k', pk))
    # N.C. taxable income (D-400 line 14) exactly ON a limit of the use-tax table, one dollar below and one above:
    # solve once, then move the wages by the distance to the limit
    r = rng_for('C02usetax', seed, year)
    for k in range(n):
        lim = r.choice(st.NC_USE_TAX_LIMITS)
        for d in (0.0, -1.0, 1.0):
            p0 = scen.plain_persona(year, 'S', 60000.0, key=f'dirusetax:{seed}:{k}', nc=True)
            p0.ncv.update({'no_consumer_use_tax': False, 'full_records': False})
            o0 = scen.solve_persona(p0)
            if o0.exc is not None or o0.ret is not True:
                continue
            l14 = scen.typed_solution(o0).get('nc_d-400.14')
            if l14 is None:
                continue
            p = scen.plain_persona(year, 'S', 60000.0 + (lim + d - l14), key=f'dirusetax:{seed}:{k}:{d}', nc=True)
            p.ncv.update({'no_consumer_use_tax': False, 'full_records': False})
            out.append(('F8u', p))
    # N.C. D-400 line 26e (interest on the underpayment of estimated tax): the N.C. income tax (line 17) less the tax withheld
    # (lines 20a/20b) placed exactly at $1,000, a dollar below, and below by the consumer use tax of line 18 (which is no income tax)
    for k in range(n):
        w_ = 70000.0 + 1000.0 * k
        mk = lambda: scen.plain_persona(year, 'S', w_, key=f'dirncint:{seed}:{k}', nc=True)
        p0 = mk()
        p0.ncv.update({'no_consumer_use_tax': False, 'full_records': False, 'interest_on_underpayment': 37.0})
        o0 = scen.solve_persona(p0)
        if o0.exc is not None or o0.ret is not True:
            continue
        t0 = scen.typed_solution(o0)
        l17, l18 = t0.get('nc_d-400.17'), t0.get('nc_d-400.18') or 0.0
        if l17 is None or l17 < 1200:
            continue
        for short in (1000.0, 999.0, 1000.0 - l18, 1000.0 - l18 - 1.0, 1001.0):
            p = mk()
            p.key = f'dirncint:{seed}:{k}:{short}'
            p.ncv.update({'no_consumer_use_tax': False, 'full_records': False, 'interest_on_underpayment': 37.0})
            p.w2[0]['box_17'] = float(l17 - short)
            p.nc_interest_probe = 37.0
            out.append(('F8i', p))
    # the estimated-tax penalty line (Form 1040 line 38): the amount owed placed one dollar above and one dollar below 10 % of
    # "the tax shown on the return" (total tax less the refundable credits, which in 2021 include the recovery rebate credit)
    for k in range(n):
        ov = {}
        if year == 2021:
            ov = {'1040_recovery_rebate_credit_wkst.ssn_before_due_date': 'yes', '1040_recovery_rebate_credit_wkst.eip_3_amount': '0', '1040_recovery_rebate_credit_wkst.dependents_ssn_before_due_date': '0'}
        mk = lambda wh=None: scen.plain_persona(year, 'MFJ', [round(92000.0 + 500 * k, 2), 63000.0], key=f'dirpen:{seed}:{k}', overrides=ov, withhold=wh if wh is not None else 0.15)
        p0 = mk()
        p0.tax_penalty = 77.0
        o0 = scen.solve_persona(p0)
        if o0.exc is not None or o0.ret is not True:
            continue
        t0 = scen.typed_solution(o0)
        shown = t0.get('1040.24', 0.0) - sum(t0.get(f'1040.{l}', 0.0) for l in ('27', '27a', '28', '29', '30'))
        bal = t0.get('1040.24', 0.0) - t0.get('1040.33', 0.0)
        wh0 = sum(d['box_2'] for d in p0.w2)
        for d in (1.0, -1.0):
            want37 = max(1000.0, 0.1 * shown) + d
            new_wh = wh0 - (want37 - bal)
            if new_wh < 0:
                continue
            p = mk()
            p.tax_penalty = 77.0
            p.w2[0]['box_2'] = round(p.w2[0]['box_2'] + (new_wh - wh0), 2)
            p.penalty_probe = True
            out.append(('F0p', p))
    return out


def directed_hsa(res, year, p, sol, label, rp):
    """Schedule 1 line 13 (HSA deduction, "attach Form 8889"): the deduction of the taxpayer's Form 8889 plus, on a joint return,
    that of the spouse's own Form 8889 - each spouse with an HSA completes a separate form (Form 8889 instructions).  The
    persona knows who has an HSA, whatever the return ended up demanding."""
    if not (getattr(p, 'hsa_you', False) or getattr(p, 'hsa_spouse', False)) or '1040_s1.13' not in sol:
        return
    joint = p.status == 'MFJ'
    exp = 0.0
    need = []
    if p.hsa_you:
        need.append('8889:you.hsa_deduction')
    if p.hsa_spouse and joint:
        need.append('8889:spouse.hsa_deduction')
    res.evaluations += 1
    res.count('rule_instances_transcribed')
    res.distinct.add(f'{year}|1040_s1.13|transcribed-directed|{len(need)}')
    missing = [k for k in need if k not in sol]
    if missing:
        res.violation(f'C02|{year}|1040_s1.13|required-line-absent', f'{label}: Schedule 1 line 13 is {sol["1040_s1.13"]} but {missing} (the Form 8889 of a spouse who has an HSA) was never figured', rp)
        return
    if not joint and any(k.startswith('8889:spouse.') for k in sol):
        res.violation(f'C02|{year}|1040_s1.13|transcribed', f'{label}: a Form 8889 for the spouse is part of a return that is not joint (Schedule 1 line 13 = {sol["1040_s1.13"]})', rp)
        return
    exp = sum(sol[k] for k in need)
    if abs(sol['1040_s1.13'] - exp) > 0.005:
        res.violation(f'C02|{year}|1040_s1.13|transcribed', f'{label}: Schedule 1 line 13 = {sol["1040_s1.13"]}; the Forms 8889 of the return give {exp} ({need})', rp)


def directed_8606(res, year, p, sol, label, rp):
    """Form 8606 Part I ("complete this part only if ... you made nondeductible contributions to a traditional IRA ..."): whoever
    needs Part I completes lines 1-3 and line 14 (the basis carried to next year), with or without a distribution."""
    if getattr(p, 'ira_mode', None) != '8606' or not p.f8606.get('part_1_needed'):
        return
    for sec in sorted({k.split('.')[0] for k in sol if k.startswith('8606:')}):
        res.evaluations += 1
        res.count('rule_instances_required_line')
        res.distinct.add(f'{year}|8606.14|required-directed')
        missing = [l for l in ('1', '2', '3', '14') if f'{sec}.{l}' not in sol]
        if missing:
            res.violation(f'C02|{year}|8606.14|required-line-absent', f'{label}: {sec} takes part with Part I needed, but lines {missing} were not completed', rp)
            return


def directed_nc_interest(res, year, p, sol, label, rp):
    """N.C. D-400 line 26e: interest on the underpayment of estimated income tax is due when the income tax of line 17 less the
    N.C. tax withheld (lines 20a and 20b) is $1,000 or more (Form D-422); the consumer use tax of line 18 is not income tax."""
    amt = getattr(p, 'nc_interest_probe', None)
    if amt is None or 'nc_d-400.17' not in sol or 'nc_d-400.26a' not in sol:
        return
    short = sol['nc_d-400.17'] - (sol.get('nc_d-400.20a') or 0.0) - (sol.get('nc_d-400.20b') or 0.0)
    owes = short >= 1000.0
    exp = amt if owes else 0.0
    got = sol.get('nc_d-400.26e') or 0.0
    res.evaluations += 1
    res.count('rule_instances_transcribed')
    res.distinct.add(f'{year}|nc_d-400.26e|transcribed-directed|{owes}')
    if abs(got - exp) > 0.005:
        res.violation(f'C02|{year}|nc_d-400.26e|transcribed', f'{label}: N.C. income tax {sol["nc_d-400.17"]} less tax withheld leaves {short:.2f} (use tax on line 18: {sol.get("nc_d-400.18")}): line 26e should carry {exp} but is {got}', rp)
    if 'nc_d-400.27' in sol and abs(sol['nc_d-400.27'] - (sol['nc_d-400.26a'] + (sol.get('nc_d-400.26d') or 0.0) + exp)) > 0.005:
        res.violation(f'C02|{year}|nc_d-400.27|transcribed', f'{label}: line 27 = {sol["nc_d-400.27"]} is not 26a + 26d + the interest due ({exp})', rp)


def directed_penalty(res, year, p, sol, label, rp):
    """Form 1040 instructions, line 38: you may owe the penalty if line 37 is at least $1,000 and more than 10 % of the tax shown
    on the return (line 24 less lines 27/27a, 28, 29 and - 2021 - 30).  The persona's penalty is a known amount."""
    if not getattr(p, 'penalty_probe', False) or '1040.37' not in sol or '1040.24' not in sol:
        return
    shown = sol['1040.24'] - sum(sol.get(f'1040.{l}', 0.0) for l in ('27', '27a', '28', '29', '30'))
    owes = sol['1040.37'] >= 1000.0 and sol['1040.37'] > 0.1 * shown
    exp = p.tax_penalty if owes else 0.0
    res.evaluations += 1
    res.count('rule_instances_transcribed')
    res.distinct.add(f'{year}|1040.38|transcribed-directed|{owes}')
    if abs(sol.get('1040.38', 0.0) - exp) > 0.005:
        res.violation(f'C02|{year}|1040.38|transcribed', f'{label}: line 37 = {sol["1040.37"]}, tax shown on the return = {shown:.2f} (line 24 {sol["1040.24"]} less refundable credits): the penalty line should carry {exp} but is {sol.get("1040.38", 0.0)}', rp)


def run_shard(spec, tier, seed):
    from hv import scen, realwork, drive
    res = Result()
    year = spec['year']
    if spec.get('kind') == 'directed':
        cases = directed_personas(year, seed, spec['n'])
    else:
        cases = [(fam, p) for fam in spec['families'] for p in scen.personas(seed, year, fam, spec['n'])]
    for fam, p in cases:
        if True:
            out, tv, t = realwork.traced(p)
            res.count('solves')
            if out.exc is not None and not tv.stored:
                continue
            sol = {k: v[-1] for k, v in tv.stored.items()}
            res.count('solutions_checked')
            check_solution(res, year, sol, f'{year} {fam} {p.key}', realwork.replay_of(p, 'base', spec), solved=(out.exc is None and out.ret is True))
            # second pass: the same return with EVERY line of every participating form
            # demanded (optional lines through field_names), so that the operand of a
            # carry exists even where the code under test reads another line.  Only
            # carries into lines of the real return are judged there: own-form
            # arithmetic of lines the return never asked for would judge parts of forms
            # the instructions say to skip (e.g. Form 8606 lines 6-13 without a distribution)
            try:
                forms = [f for f in out.solver.forms]
                names = []
                for f in forms:
                    for fld in out.solver.forms[f].fields():
                        names.append(fld.name())
                q = p      # the same persona answers whatever else is asked (its answers are a function of the input name)
                from hv import trace as _tr
                with _tr.Tracer(ceiling=realwork.CEILING, record_reads=False) as t2:
                    classes = __import__('hv.hx', fromlist=['catalogue']).catalogue(year)
                    o2 = drive.run_solver(classes, drive.config_from(dict(p.answers)), forms, field_names=names,
                                          answer=lambda m, nb: q.answer(m), tracer=t2, sort_key=drive.plain_name_key)
                tv2 = _tr.TraceView(t2.events)
                sol2 = {k: v[-1] for k, v in tv2.stored.items()}
                if sol2:
                    res.count('full_evaluation_solutions_checked')
                    check_solution(res, year, sol2, f'{year} {fam} {p.key} [all lines]', realwork.replay_of(p, 'all-lines', spec), base_keys=set(sol))
            except Exception as e:  # harness-side problem: count, never a verdict
                res.count('full_evaluation_failed')
            directed_ira(res, year, p, sol, f'{year} {fam} {p.key}', realwork.replay_of(p, 'base', spec))
            directed_penalty(res, year, p, sol, f'{year} {fam} {p.key}', realwork.replay_of(p, 'base', spec))
            directed_nc_interest(res, year, p, sol, f'{year} {fam} {p.key}', realwork.replay_of(p, 'base', spec))
            if out.exc is None and out.ret is True:
                directed_hsa(res, year, p, sol, f'{year} {fam} {p.key}', realwork.replay_of(p, 'base', spec))
                directed_8606(res, year, p, sol, f'{year} {fam} {p.key}', realwork.replay_of(p, 'base', spec))
            if len(res.samples) < 1:
                res.sample({'persona': p.describe(), 'lines_in_solution': len(sol), 'rule_instances_so_far': res.evaluations})
    return res


def finalize(res, tier):
    total = 0
    never = []
    for y in (2021, 2022, 2023):
        parsed, trans, places = rules_for(y)
        keys = {f'{y}|{f}.{l}|{r.kind}' for (f, l), rs in parsed.items() for r in rs} | {f'{y}|{f}.{l}|transcribed' for (f, l) in trans}
        total += len(keys)
        never += sorted(keys - res.distinct)
    out = {'rules_total': total, 'rules_seen_nontrivially': len(res.distinct), 'rules_never_nontrivial': never[:150]}
    if len(res.distinct) < 0.5 * total:
        res.inconclusive.append(f'only {len(res.distinct)} of {total} rules were exercised non-trivially')
    return out
