"""C12 - stored values have the declared type, rounding and blank convention.
Bodies of generated lines return every awkward Python value for every line
type and decimal-place setting; the oracle is the ten-line convention model
(hv/progen.convention).  All values stored by real returns are checked too."""
from hv.common import Result
from hv import progen, progwork, oracles, drive, trace

ID = 'C12'
LEVEL = 'exploration'
RULE = ('one evaluation = one traced solve; generated part enumerates (line type x places x awkward value) exhaustively; '
        'distinct = distinct (line type, places, value class, outcome) cells observed; real part checks every STORE_LINE/READ_LINE of explored returns')
ASSUMPTIONS = ['the convention model: None/blank -> empty value of the type; exact declared type else TypeError naming the line; money rounded to places']

TYPES = ['float', 'int', 'bool', 'str', 'enum']


def plan(tier, seed):
    sp = [{'kind': 'weird'}]
    sp += progwork.shards(tier, 1200, 60000, exhaustive=False)
    from hv import realwork
    return sp + realwork.shards('C12', tier)


def weird_programs():
    for t in TYPES:
        for places in ([0, 2, 5] if t == 'float' else [2]):
            for wname in progen.WEIRD:
                line1 = {'name': '1', 'type': t, 'required': True, 'places': places, 'body': ['weird', wname]}
                # a reader of line 1 (so that "what a reader sees" is observed)
                line2 = {'name': '2', 'type': 'str', 'required': True, 'body': ['cast', 'str', ['ln', '1']]}
                forms = [{'name': 'fa', 'kind': 'form', 'instances': None, 'inputs': [], 'lines': [line1, line2]}]
                yield (t, places, wname), {'forms': forms, 'request': ['fa'], 'field_names': [], 'file': {}, 'answers': {}, 'prompt': True}


def run_shard(spec, tier, seed):
    if spec['kind'] == 'real':
        from hv import realwork
        return realwork.run_shard('C12', spec, tier, seed)
    res = Result()
    if spec['kind'] == 'weird':
        for (t, places, wname), prog in weird_programs():
            raw = progen.WEIRD[wname]
            try:
                exp = ('value', progen.convention(raw, t, places))
            except progen.TypeAbort:
                exp = ('typeerror', None)
            out, tv, tr = progwork.traced_run(prog)
            res.evaluations += 1
            res.count('convention_cases')
            label = f'weird:{t}:places{places}:{wname}'
            rp = progwork.prog_replay(label, prog, None, {'shard': spec})
            res.distinct.add(f'{t}|{places}|{type(raw).__name__}|{exp[0]}')
            stored = tv.stored.get('fa.1')
            if exp[0] == 'typeerror':
                res.count('expected_typeerror')
                if stored is not None:
                    res.violation('C12|prog|wrong-type-stored-or-coerced', f'{label}: definition returned {raw!r}; stored {stored[-1]!r} instead of raising TypeError', rp)
                elif not isinstance(out.exc, TypeError):
                    res.violation('C12|prog|wrong-type-not-rejected', f'{label}: definition returned {raw!r}; expected TypeError, got {drive.verdict_class(out)}', rp)
                elif 'fa.1' not in str(out.exc):
                    res.violation('C12|prog|typeerror-does-not-name-line', f'{label}: TypeError message {str(out.exc)!r} does not name fa.1', rp)
            else:
                res.count('expected_value')
                if stored is None:
                    res.violation('C12|prog|value-not-stored', f'{label}: definition returned {raw!r}; nothing stored ({drive.verdict_class(out)})', rp)
                elif not oracles._eq(stored[-1], exp[1]) or (isinstance(exp[1], float) and str(stored[-1]) != str(exp[1])):
                    res.violation('C12|prog|stored-ne-convention', f'{label}: definition returned {raw!r}; stored {stored[-1]!r}, convention says {exp[1]!r}', rp)
                reads = [e for e in tv.events if e[0] == 'READ_LINE' and e[1] == 'fa.1' and e[2]]
                if stored is not None and reads and not oracles._eq(reads[-1][3], stored[-1]):
                    res.violation('C12|prog|reader-saw-other-value', f'{label}: reader saw {reads[-1][3]!r}, stored {stored[-1]!r}', rp)
            if out.exc is None:
                v, n = oracles.c12(out, tv)
                res.count('stores_checked', n)
                for suffix, msg in v:
                    res.violation(f'C12|prog|{suffix}', f'{label}: {msg}', rp)
            if res.evaluations in (1, 40):
                res.sample({'label': label, 'returned': repr(raw), 'expected': repr(exp), 'stored': repr(stored), 'verdict': drive.verdict_class(out)})
        res.extra['weird_exhaustive'] = True
        return res
    for label, prog in progwork.programs(spec, seed):
        out, tv, tr = progwork.traced_run(prog)
        res.evaluations += 1
        if out.exc is not None:
            continue
        v, n = oracles.c12(out, tv)
        res.count('stores_checked', n)
        for ev in tv.events:
            if ev[0] == 'STORE_LINE':
                res.distinct.add(f'prog|{type(ev[2]).__name__}|{"zero" if not ev[2] else "nz"}')
        for suffix, msg in v:
            res.violation(f'C12|prog|{suffix}', f'{label}: {msg}', progwork.prog_replay(label, prog, None, {'shard': spec}))
    return res


def finalize(res, tier):
    c = res.counters
    if c.get('expected_typeerror', 0) < 50 or c.get('expected_value', 0) < 50:
        res.inconclusive.append('convention cases not all run')
    if c.get('stores_checked', 0) < 1000:
        res.inconclusive.append('fewer than 1000 stores checked')
    return {'exhaustive': bool(res.extra.get('weird_exhaustive'))}
