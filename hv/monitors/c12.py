"""C12 - stored values have the declared type, rounding and blank convention.
Bodies of generated lines return every awkward Python value for every line
type and decimal-place setting; the oracle is the ten-line convention model
(hv/progen.convention).  All values stored by real returns are checked too."""
from hv.common import Result
from hv import progen, progwork, oracles, drive, trace

ID = 'C12'
LEVEL = 'exploration'
RULE = ('one evaluation = one traced solve; generated part enumerates (line type x places x awkward value) exhaustively; '
        'distinct = distinct (line type, places, value class, outcome) cells observed; real part checks every STORE_LINE/READ_LINE of explored returns')
ASSUMPTIONS = ['the convention model: None/blank -> empty value of the type; exact declared type else TypeError naming the line; money rounded to places']

TYPES = ['float', 'int', 'bool', 'str', 'enum']


def plan(tier, seed):
    sp = [{'kind': 'weird'}]
    sp += progwork.shards(tier, 1200, 60000, exhaustive=False)
    from hv import realwork
    # every shipped line demanded on its own next to Form 1040, for several kinds of filer
    k = 4 if tier == 'quick' else 16
    for y in (2021, 2022, 2023):
        for s_ in range(k):
            sp.append({'kind': 'lines', 'year': y, 'slice': s_, 'of': k, 'filers': 2 if tier == 'quick' else 8})
    return sp + realwork.shards('C12', tier)


FILERS = [('S', 0, 48000, False), ('QSS', 2, 170000, True), ('MFJ', 1, 95000, True), ('HOH', 1, 30000, False),
          ('MFS', 0, 260000, True), ('MFJ', 3, 520000, False), ('S', 0, 9000, True), ('HOH', 2, 130000, True)]


def run_lines(spec, tier, seed):
    """Each line of each shipped (non-input) form is demanded by name, next to Form
    1040, from filers who have *no* statements beyond a W-2 (empty sums, zero
    counts) and from persona filers: a definition answering with another type than
    its line declares is rejected by the framework (correctly) - and the return
    cannot be solved, which is the shipped definition's breach of the discipline."""
    from hv import hx, scen, realwork
    from hv.common import h as _h

    def h(o, n):
        return int(_h(o, n), 16)
    res = Result()
    year = spec['year']
    todo = []
    for cls in hx.catalogue(year):
        if issubclass(cls, hx.form.InputForm):
            continue
        insts = hx.instances_for(cls)
        for inst in insts[:1] if len(insts) > 1 and tier == 'quick' else insts:
            fo = cls(instance=inst) if inst else cls()
            for f in fo.fields():
                todo.append((cls.form_name, fo.name(), f.name()))
    todo = [t for n, t in enumerate(todo) if n % spec['of'] == spec['slice']]
    # worksheets that branch on several yes/no answers: every combination of those answers (2021 recovery rebate credit)
    combos = {}
    if year == 2021:
        W_ = '1040_recovery_rebate_credit_wkst'
        import itertools
        combos[W_] = [{f'{W_}.ssn_before_due_date': a, f'{W_}.armed_forces': b, f'{W_}.either_ssn_before_due_date': c_, f'{W_}.dependents_ssn_before_due_date': d_, f'{W_}.eip_3_amount': '0'}
                      for a, b, c_, d_ in itertools.product(('yes', 'no'), ('yes', 'no'), ('yes', 'no'), ('0', '1'))]
    for form_name, full, line in todo:
        for ov_ in combos.get(form_name, []):
            for st_ in ('MFJ', 'S'):
                p = scen.plain_persona(year, st_, 60000.0, key=f'c12combo:{st_}', deps_ctc=1, overrides=ov_)
                out = drive.run_solver(hx.catalogue(year), drive.config_from({}), sorted({'1040', full}), field_names=[line],
                                       answer=lambda missing, needed_by, p=p: p.answer(missing), sort_key=drive.plain_name_key)
                res.evaluations += 1
                res.count('line_demands_answer_combinations')
                if isinstance(out.exc, TypeError) and 'expected to produce type' in str(out.exc):
                    import re as _re
                    m_ = _re.search(r'Field named (\S+) expected', str(out.exc))
                    nm = m_.group(1) if m_ else line
                    res.violation(f'C12|real|{year}|shipped-definition-wrong-type|{realwork.key_line(nm + " ")}',
                                  f'{year} {st_} with answers {sorted(ov_.items())[:4]} demanding {line}: the shipped definition of {nm} answered with another type than the line declares: {str(out.exc)[:130]}',
                                  {'engine': 'lines', 'persona': p.describe(), 'line': line, 'answers': ov_, 'shard': spec})
        for fi in range(spec['filers']):
            # the first filer is the same for every line; the others rotate with the line and the seed
            st, kids, wages, nc = FILERS[0] if fi == 0 else FILERS[1 + (h([seed, line, fi], 6) % (len(FILERS) - 1))]
            if fi >= 4:
                fam = scen.FAMILIES[h([seed, line, fi, 'fam'], 6) % len(scen.FAMILIES)]
                p = scen.Persona(year, fam, f'c12l:{seed}:{h(line, 6) % 40}')
            else:
                p = scen.plain_persona(year, st, wages, key=f'c12l:{st}', deps_ctc=kids, nc=nc or form_name.startswith('nc_'))
            with trace.Tracer(ceiling=realwork.CEILING) as t:
                out = drive.run_solver(hx.catalogue(year), drive.config_from({}), sorted({'1040', full}), field_names=[line],
                                       answer=lambda missing, needed_by, p=p: p.answer(missing), tracer=t, sort_key=drive.plain_name_key)
            tv = trace.TraceView(t.events)
            res.evaluations += 1
            res.count('line_demands')
            res.count('line_demand_' + drive.verdict_class(out).split(':')[0])
            if line in tv.stored:
                res.add('lines_demanded_and_stored', f'{year}|{realwork.key_line(line + " ")}')
            if out.exc is None:
                v, n = oracles.c12(out, tv)
                res.count('stores_checked', n)
                for suffix, msg in v:
                    res.violation(f'C12|real|{year}|{suffix}|{realwork.key_line(msg)}', f'{year} {p.describe()} demanding {line}: {msg}', {'engine': 'lines', 'persona': p.describe(), 'line': line, 'shard': spec})
            elif isinstance(out.exc, TypeError):
                res.count('typeerror_aborts')
                lo = [l for l, a in tv.attempts.items() if a[-1][0] == 'error']
                named = [l for l in lo if l in str(out.exc)]
                rp = {'engine': 'lines', 'persona': p.describe(), 'line': line, 'shard': spec}
                if lo and not named:
                    res.violation(f'C12|real|{year}|typeerror-does-not-name-line|{realwork.key_line(lo[0] + " ")}', f'{lo[0]}: TypeError message {str(out.exc)[:100]!r}', rp)
                elif lo:
                    res.violation(f'C12|real|{year}|shipped-definition-wrong-type|{realwork.key_line(named[0] + " ")}',
                                  f'{year} filer {p.describe().get("status", st)} demanding {line}: the shipped definition of {named[0]} answered with another type than the line declares: {str(out.exc)[:130]}', rp)
    return res


def weird_programs():
    for t in TYPES:
        for places in ([0, 2, 5] if t == 'float' else [2]):
            for wname in progen.WEIRD:
                line1 = {'name': '1', 'type': t, 'required': True, 'places': places, 'body': ['weird', wname]}
                # a reader of line 1 (so that "what a reader sees" is observed)
                line2 = {'name': '2', 'type': 'str', 'required': True, 'body': ['cast', 'str', ['ln', '1']]}
                forms = [{'name': 'fa', 'kind': 'form', 'instances': None, 'inputs': [], 'lines': [line1, line2]}]
                yield (t, places, wname), {'forms': forms, 'request': ['fa'], 'field_names': [], 'file': {}, 'answers': {}, 'prompt': True}


def run_shard(spec, tier, seed):
    if spec['kind'] == 'real':
        from hv import realwork
        return realwork.run_shard('C12', spec, tier, seed)
    if spec['kind'] == 'lines':
        return run_lines(spec, tier, seed)
    res = Result()
    if spec['kind'] == 'weird':
        for (t, places, wname), prog in weird_programs():
            raw = progen.WEIRD[wname]
            try:
                exp = ('value', progen.convention(raw, t, places))
            except progen.TypeAbort:
                exp = ('typeerror', None)
            out, tv, tr = progwork.traced_run(prog)
            res.evaluations += 1
            res.count('convention_cases')
            label = f'weird:{t}:places{places}:{wname}'
            rp = progwork.prog_replay(label, prog, None, {'shard': spec})
            res.distinct.add(f'{t}|{places}|{type(raw).__name__}|{exp[0]}')
            stored = tv.stored.get('fa.1')
            if exp[0] == 'typeerror':
                res.count('expected_typeerror')
                if stored is not None:
                    res.violation('C12|prog|wrong-type-stored-or-coerced', f'{label}: definition returned {raw!r}; stored {stored[-1]!r} instead of raising TypeError', rp)
                elif not isinstance(out.exc, TypeError):
                    res.violation('C12|prog|wrong-type-not-rejected', f'{label}: definition returned {raw!r}; expected TypeError, got {drive.verdict_class(out)}', rp)
                elif 'fa.1' not in str(out.exc):
                    res.violation('C12|prog|typeerror-does-not-name-line', f'{label}: TypeError message {str(out.exc)!r} does not name fa.1', rp)
            else:
                res.count('expected_value')
                if stored is None:
                    res.violation('C12|prog|value-not-stored', f'{label}: definition returned {raw!r}; nothing stored ({drive.verdict_class(out)})', rp)
                elif not oracles._eq(stored[-1], exp[1]) or (isinstance(exp[1], float) and str(stored[-1]) != str(exp[1])):
                    res.violation('C12|prog|stored-ne-convention', f'{label}: definition returned {raw!r}; stored {stored[-1]!r}, convention says {exp[1]!r}', rp)
                reads = [e for e in tv.events if e[0] == 'READ_LINE' and e[1] == 'fa.1' and e[2]]
                if stored is not None and reads and not oracles._eq(reads[-1][3], stored[-1]):
                    res.violation('C12|prog|reader-saw-other-value', f'{label}: reader saw {reads[-1][3]!r}, stored {stored[-1]!r}', rp)
            if out.exc is None:
                v, n = oracles.c12(out, tv)
                res.count('stores_checked', n)
                for suffix, msg in v:
                    res.violation(f'C12|prog|{suffix}', f'{label}: {msg}', rp)
            if res.evaluations in (1, 40):
                res.sample({'label': label, 'returned': repr(raw), 'expected': repr(exp), 'stored': repr(stored), 'verdict': drive.verdict_class(out)})
        res.extra['weird_exhaustive'] = True
        return res
    for label, prog in progwork.programs(spec, seed):
        out, tv, tr = progwork.traced_run(prog)
        res.evaluations += 1
        if out.exc is not None:
            continue
        v, n = oracles.c12(out, tv)
        res.count('stores_checked', n)
        for ev in tv.events:
            if ev[0] == 'STORE_LINE':
                res.distinct.add(f'prog|{type(ev[2]).__name__}|{"zero" if not ev[2] else "nz"}')
        for suffix, msg in v:
            res.violation(f'C12|prog|{suffix}', f'{label}: {msg}', progwork.prog_replay(label, prog, None, {'shard': spec}))
    return res


def finalize(res, tier):
    c = res.counters
    if c.get('expected_typeerror', 0) < 50 or c.get('expected_value', 0) < 50:
        res.inconclusive.append('convention cases not all run')
    nl = len(res.sets.get('lines_demanded_and_stored', ()))
    if nl < 1500:
        res.inconclusive.append(f'only {nl} shipped lines were demanded by name and stored (< 1500)')
    if c.get('stores_checked', 0) < 1000:
        res.inconclusive.append('fewer than 1000 stores checked')
    return {'exhaustive': bool(res.extra.get('weird_exhaustive'))}
