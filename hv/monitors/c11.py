"""C11 - lines only see validated, correctly typed, finite inputs.
A contract monitor on InputStore.__getitem__ with harness-side ground truth
(presence and raw text read directly from the ConfigParser) and an independent
model of what each input type accepts; adversarial strings by file and by
prompt; the same contract over every input read of real returns."""
import math
import re
import string

from hv.common import Result, rng_for, h

ID = 'C11'
LEVEL = 'exploration'
RULE = ('one evaluation = one InputStore read (by file or after a prompt answer) of one adversarial string for one input type; '
        'distinct_nontrivial = distinct (input type, string class, outcome) cells, where string class abstracts the string '
        '(blank/sign/exponent/nan-inf/underscore/unicode-digit/case/near-miss/...)')
ASSUMPTIONS = [
    'numeric text is valid iff Python int()/float() accepts the stripped text and the result is finite; blank means 0 (documented input contract)',
    "'%' is excluded from the generated alphabet: ConfigParser interpolation of '%' is reported under C14",
    'icontract postconditions on Input.value check the declared result type',
]

TYPES = ['str', 'bool', 'int', 'float', 'enum', 'enum_empty', 'regex', 'ssn']
REGEX = r'^(0[1-9]|1[0-2])[0-9]{3}$'


class ContractBroken(Exception):
    pass


def model(itype, raw):
    """Independent model: ('value', v) or ('invalid',)."""
    s = raw.strip()
    if itype == 'str':
        return ('value', s)
    if itype == 'bool':
        l = s.lower()
        if l in ('true', 'yes', 'y', '1', 'on'):
            return ('value', True)
        if l in ('false', 'no', 'n', '0', 'off'):
            return ('value', False)
        return ('invalid',)
    if itype == 'int':
        if s == '':
            return ('value', 0)
        try:
            return ('value', int(s))
        except ValueError:
            return ('invalid',)
    if itype == 'float':
        if s == '':
            return ('value', 0.0)
        try:
            v = float(s)
        except ValueError:
            return ('invalid',)
        if not math.isfinite(v):
            return ('invalid',)
        return ('value', v)
    if itype in ('enum', 'enum_empty'):
        if s == '':
            return ('value', None) if itype == 'enum_empty' else ('invalid',)
        if s in ('alpha', 'beta', 'gamma'):
            return ('value', s)      # compared by member name
        return ('invalid',)
    if itype == 'regex':
        return ('value', s) if re.match(REGEX, s) else ('invalid',)
    if itype == 'ssn':
        d = s.replace('-', '')
        if len(d) == 9 and all(c in '0123456789' for c in d):
            return ('value', d)
        return ('invalid',)
    raise ValueError(itype)


def sclass(s):
    t = s.strip()
    if s == '':
        return 'empty'
    if t == '':
        return 'blank'
    l = t.lower()
    if any(x in l for x in ('nan', 'inf')):
        return 'nan-inf'
    if re.fullmatch(r'[+-]?\d+', t):
        return 'int' + ('-signed' if t[0] in '+-' else '') + ('-ws' if s != t else '')
    if re.fullmatch(r'[+-]?(\d+\.\d*|\.\d+)', t):
        return 'decimal'
    if re.fullmatch(r'[+-]?(\d+\.?\d*|\.\d+)[eE][+-]?\d+', t):
        return 'huge-exponent' if abs(int(re.split('[eE]', t)[1])) > 300 else 'exponent'
    if '_' in t and re.fullmatch(r'[\d_.+-]+', t):
        return 'underscore'
    if any(ord(c) > 127 and c.isdigit() for c in t):
        return 'unicode-digit'
    if any(ord(c) > 127 for c in t):
        return 'unicode'
    if l in ('true', 'yes', 'y', 'on', 'false', 'no', 'n', 'off'):
        return 'boolword' + ('-case' if t != l else '')
    if l in ('alpha', 'beta', 'gamma'):
        return 'member' + ('-case' if t != l else '')
    if re.fullmatch(r'[\d-]+', t):
        return 'digits-dashes'
    if len(t) > 60:
        return 'long'
    if '\n' in s:
        return 'multiline'
    return 'other'


SEEDS = {
    'bool': ['yes', 'no', 'y', 'n', 'true', 'false', '1', '0', 'on', 'off', 'YES', 'No', ' y ', 'True', 'tRuE', 'yess', 'ye', '2', 'ja', '', ' ', 'nope', 't', 'f', '01', 'o n'],
    'int': ['0', '1', '-1', '+5', ' 7 ', '007', '1_000', '1__0', '_1', '1_', '١٢٣', '3.0', '1e3', '', ' ', '--1', '0x10', '0b1', '1 2', 'nan', 'inf', '9' * 40, '\t5\n'],
    'float': ['0', '1.5', '-2.25', '+3', '.5', '5.', '1e3', '1E-3', '1e999', '-1e999', 'nan', 'NaN', '-nan', 'inf', '-inf', 'Infinity', '+INF', ' 2.5 ', '1_000.5', '1__0.0',
              '١٢٫٥', '١٢', '1,000', '1.2.3', '', '  ', '$5', '5 %'.replace(' %', ''), '0x1p3', '1e', 'e5', '--1', '1e-400', '1' * 400, '\t1.0\n'],
    'enum': ['alpha', 'beta', 'gamma', 'Alpha', 'ALPHA', ' alpha ', 'alph', 'alphaa', 'first', '', ' ', 'alpha beta', 'delta', '0', 'GenEnum.alpha', '__class__', 'name', 'value', '_missing_',
             '"alpha"', "'alpha'", 'alpha"', '"alpha', '""', "''", '(alpha)', '[alpha]', '<alpha>', '`alpha`', 'alpha,', 'alpha.', '-alpha'],
    'regex': ['01234', '12999', '00123', '13000', '0123', '012345', ' 01234 ', '01234\n', '01234x', 'x01234', '', '0 1234', '٠١٢٣٤'],
    'ssn': ['123-45-6789', '123456789', ' 123-45-6789 ', '1-2-3-4-5-6-7-8-9', '12345678', '1234567890', '123-45-678x', '', '---------', '١٢٣٤٥٦٧٨٩', '123 45 6789', '-123456789-'],
    'str': ['hello', ' padded ', '', '   ', 'two words', 'tab\there', 'semi;colon', 'hash # in', 'equals = sign', 'colon: here', 'unicode é ü', 'x' * 300, '[section]', "quote's", 'back\\slash'],
}
SEEDS['enum_empty'] = SEEDS['enum']
# text a template or a format string leaves behind (braces), in every type
for _t in list(SEEDS):
    if _t != 'enum_empty':
        SEEDS[_t] = SEEDS[_t] + ['{amount}', '{}', '{0}', '{input_name}', '}{', 'a{b', '{value}', '%s', '$(x)', '${x}']
SEEDS['enum_empty'] = SEEDS['enum']


def strings_for(itype, rng, n):
    out = list(SEEDS[itype])
    allseeds = [s for v in SEEDS.values() for s in v]
    alphabet = string.ascii_letters + string.digits + ' \t-+._eE,;:#=[]()\'"\\/$!?*<>|~^&{}@`' + 'éü١٢٣٫'
    while len(out) < n:
        r = rng.random()
        if r < 0.35:
            s = rng.choice(SEEDS[itype])
        elif r < 0.5:
            s = rng.choice(allseeds)
        else:
            s = ''.join(rng.choice(alphabet) for _ in range(rng.randint(0, 12)))
        # mutate
        for _ in range(rng.randint(0, 2)):
            m = rng.random()
            if m < 0.2:
                s = rng.choice([' ', '\t', '  ']) + s
            elif m < 0.4:
                s = s + rng.choice([' ', '\t', '  '])
            elif m < 0.55 and s:
                k = rng.randrange(len(s))
                s = s[:k] + s[k].swapcase() + s[k + 1:]
            elif m < 0.7 and s:
                k = rng.randrange(len(s))
                s = s[:k] + s[k + 1:]
            elif m < 0.85:
                k = rng.randint(0, len(s))
                s = s[:k] + rng.choice(alphabet) + s[k:]
            elif m < 0.93:
                a_, b_ = rng.choice([('"', '"'), ("'", "'"), ('(', ')'), ('[', ']'), ('<', '>'), ('"', ''), ('', '"'), ('`', '`'), ('', ','), ('', '.')])
                s = a_ + s + b_
            else:
                s = rng.choice(['+', '-', '']) + s
        s = s.replace('%', '').replace('\r', '').replace('\n', '')   # see ASSUMPTIONS; ConfigParser values are single-line here
        out.append(s)
    return out


def plan(tier, seed):
    n = 3000 if tier == 'quick' else 300000
    nsl = 1 if tier == 'quick' else 2
    sp = [{'kind': 'iso', 'itype': t, 'n': n // nsl, 'slice': k} for t in TYPES for k in range(nsl)]
    sp.append({'kind': 'catalogue'})
    sp.append({'kind': 'cliprompt'})
    from hv import realwork
    N = 8 if tier == 'quick' else 200
    for y in (2021, 2022, 2023):
        sp.append({'kind': 'real', 'year': y, 'families': ['F0', 'F1', 'F2', 'F3', 'F4', 'F5', 'F8', 'F9', 'F10'], 'n': N})
    return sp


def make_form(hx, required=False):
    from hv import progen
    I, F, FM = hx.inputs, hx.fields, hx.form
    holder = {}

    def __init__(self, **kwargs):
        inputs = [
            I.StringInput('str'), I.BooleanInput('bool'), I.IntegerInput('int'), I.FloatInput('float'),
            I.EnumInput('enum', progen.GenEnum), I.EnumInput('enum_empty', progen.GenEnum, allow_empty=True),
            I.RegexInput('regex', REGEX, description='regex'), I.SSNInput('ssn'),
        ]
        req = [
            F.StringField('l_str', lambda s, i, v: 'S' + i['str']), F.BooleanField('l_bool', lambda s, i, v: i['bool']),
            F.IntegerField('l_int', lambda s, i, v: i['int']), F.FloatField('l_float', lambda s, i, v: i['float'], places=9),
            F.EnumField('l_enum', progen.GenEnum, lambda s, i, v: i['enum']), F.EnumField('l_enum_empty', progen.GenEnum, lambda s, i, v: i['enum_empty']),
            F.StringField('l_regex', lambda s, i, v: 'S' + i['regex']), F.StringField('l_ssn', lambda s, i, v: 'S' + i['ssn']),
        ]
        FM.Form.__init__(self, holder['cls'], inputs, req if required else [], [] if required else req, **kwargs)
    cls = type('C11Form', (FM.Form,), {'form_name': 'c11', 'tax_year': 2099, 'description': 'c11', 'long_description': 'c11',
                                      'jurisdiction': FM.Jurisdiction.US, '__init__': __init__, 'needs_filing': lambda s, v: False})
    holder['cls'] = cls
    return cls


PYT = {'str': str, 'bool': bool, 'int': int, 'float': float, 'regex': str, 'ssn': str}


def judge(itype, raw, provided, outcome, value, inp, I):
    """outcome in value|missing|invalid|other.  Returns (suffix, msg) or None."""
    if outcome == 'missing':
        if provided:
            return ('supplied-reported-missing', f'{itype}: {raw!r} is in the file but MissingInput was raised')
        return None
    if not provided:
        if outcome == 'value':
            return ('absent-input-defaulted', f'{itype}: key absent from the file but the read returned {value!r}')
        return ('absent-input-other', f'{itype}: key absent from the file, outcome {outcome}')
    exp = model(itype, raw)
    if outcome == 'invalid':
        if exp[0] == 'value':
            return ('valid-text-rejected', f'{itype}: {raw!r} denotes {exp[1]!r} but was reported invalid')
        return None
    if outcome == 'other':
        return ('unexpected-exception', f'{itype}: {raw!r} -> {value}')
    # a value was returned
    try:
        own_valid = inp.valid(raw)
    except BaseException as e:  # noqa
        own_valid = f'raised {type(e).__name__}'
    if own_valid is not True:
        return ('value-for-text-own-validator-rejects', f'{itype}: {raw!r} -> {value!r} although valid() says {own_valid}')
    if itype in ('float', 'int') and isinstance(value, float) and not math.isfinite(value):
        return ('non-finite-number-accepted', f'{itype}: {raw!r} -> {value!r}')
    if exp[0] == 'invalid':
        return ('invalid-text-became-value', f'{itype}: {raw!r} -> {value!r}, the text denotes no valid {itype}')
    if itype in ('enum', 'enum_empty'):
        got = None if value is None else getattr(value, 'name', value)
        ok = got == exp[1] and (value is None or isinstance(value, inp.enum))
    else:
        ok = type(value) is PYT[itype] and value == exp[1]
    if not ok:
        return ('wrong-value-or-type', f'{itype}: {raw!r} -> {value!r} ({type(value).__name__}), expected {exp[1]!r}')
    return None


def read_outcome(store, key, I):
    import configparser
    try:
        return 'value', store[key]
    except I.MissingInput:
        return 'missing', None
    except I.InvalidInput:
        return 'invalid', None
    except I.MissingInputSpecification:
        return 'other', 'MissingInputSpecification'
    except BaseException as e:  # noqa
        return 'other', f'{type(e).__name__}: {e}'


def install_contracts(hx, res):
    """icontract postconditions on Input.value: declared result types."""
    import icontract
    I = hx.inputs
    saved = []

    def bool_result(result):
        res.count('icontract_evaluations')
        return type(result) is bool

    def int_result(result):
        res.count('icontract_evaluations')
        return type(result) is int

    def float_result(result):
        res.count('icontract_evaluations')
        return type(result) is float

    def str_result(result):
        res.count('icontract_evaluations')
        return type(result) is str
    for cls, fn in ((I.BooleanInput, bool_result), (I.IntegerInput, int_result), (I.FloatInput, float_result), (I.StringInput, str_result), (I.SSNInput, str_result)):
        # the class may inherit value() from a shared base (whatever the class layout of the tree under test is): the
        # contract is put on the class itself, delegating to whatever value() resolves to, and taken off again afterwards
        own = cls.__dict__.get('value', _ABSENT)
        target = own if own is not _ABSENT else (lambda self, string, _c=cls: super(_c, self).value(string))
        saved.append((cls, own))
        cls.value = icontract.ensure(fn, error=lambda: ContractBroken(f'{cls.__name__}.value result type'))(target)
    return saved


_ABSENT = object()


def uninstall(saved):
    for cls, orig in saved:
        if orig is _ABSENT:
            delattr(cls, 'value')
        else:
            cls.value = orig


def run_shard(spec, tier, seed):
    from hv import hx, drive, trace
    I, S = hx.inputs, hx.solver
    res = Result()
    if spec['kind'] == 'real':
        return run_real(spec, tier, seed, res)
    if spec['kind'] == 'catalogue':
        return run_catalogue(spec, tier, seed, res)
    if spec['kind'] == 'cliprompt':
        return run_cliprompt(spec, tier, seed, res)
    itype = spec['itype']
    rng = rng_for('C11', seed, itype, spec.get('slice', 0))
    cls = make_form(hx)
    saved = install_contracts(hx, res)
    try:
        for n, s in enumerate(strings_for(itype, rng, spec['n'])):
            key = f'c11.{itype}'
            for mode in ('file', 'prompt', 'absent', 'wrong-section-case'):
                if mode in ('absent', 'wrong-section-case') and n % 25 != 0:
                    continue
                if mode == 'prompt' and n % 3 != 0:
                    continue
                cp = drive.config_from({})
                if mode == 'file':
                    cp.add_section('c11')
                    try:
                        cp.set('c11', itype, s)
                    except (ValueError, TypeError):
                        continue
                elif mode == 'wrong-section-case':
                    cp.add_section('C11')
                    cp.set('C11', itype, s)
                store = I.InputStore(cp)
                answered = []

                def prompt(missing, needed_by, _s=s, _mode=mode, _it=itype):
                    if _mode == 'prompt' and missing.valid(_s):
                        answered.append(missing.name())
                        return _s, True
                    if _mode == 'file' and missing.name() == f'c11.{_it}':
                        # the input IS in the file: being asked for it at all is wrong; answer validly to expose an overwrite
                        good = [x for x in SEEDS[_it] if model(_it, x)[0] == 'value' and missing.valid(x)]
                        if good:
                            answered.append(missing.name())
                            return good[0], True
                    return None, False
                with trace.Tracer() as t:
                    sv = S.Solver(store, [cls], prompt=prompt)
                    try:
                        ret = sv.solve(['c11'], field_names=[f'c11.l_{itype}'])
                        exc = None
                    except ContractBroken as e:
                        res.violation(f'C11|{itype}|value-result-type', f'{itype}: {s!r}: {e}', {'itype': itype, 'text': s, 'mode': mode, 'shard': spec})
                        continue
                    except BaseException as e:  # noqa
                        ret, exc = None, e
                res.evaluations += 1
                res.count('reads_' + mode)
                reads = [e for e in t.events if e[0] == 'READ_INPUT' and e[1] == key]
                if not reads:
                    res.count('no_read_observed')
                    if exc is not None and mode in ('file', 'prompt') and not isinstance(exc, (I.InvalidInput, I.MissingInput, AssertionError)):
                        # the read itself blew up with something that is neither "missing" nor "invalid"
                        res.violation(f'C11|{itype}|read-raises-{type(exc).__name__}|{sclass(s)}', f'[{mode}] {itype}: reading {s!r} raised {type(exc).__name__}: {str(exc)[:80]} (neither a value, nor missing, nor reported invalid)',
                                      {'itype': itype, 'text': s, 'mode': mode, 'shard': spec})
                    continue
                ev = reads[-1]
                outcome = {'value': 'value', 'missing': 'missing', 'invalid': 'invalid', 'nospec': 'other'}[ev[2]]
                value = ev[3]
                provided, raw = ev[4], ev[5]
                inp = sv._input_map[key] if hasattr(sv, '_input_map') and key in sv._input_map else None
                if inp is None:
                    inp = [i for i in cls().inputs() if i.base_name() == itype][0]
                if outcome == 'other' or (exc is not None and not isinstance(exc, (I.InvalidInput, TypeError))):
                    outcome, value = 'other', f'{type(exc).__name__}: {exc}' if exc else value
                if mode == 'prompt' and not answered:
                    provided_expected = False
                v = judge(itype, raw if raw is not None else s, provided, outcome, value, inp, I)
                inv = [e for e in reads if e[2] == 'invalid']
                if v is None and inv:
                    # rejected text must be *reported as invalid* by the solve, not as missing, and never re-asked or overwritten
                    res.count('invalid_reports_checked')
                    raw = inv[0][5]
                    after = drive.final_inputs(cp).get(f'c11.{itype}')
                    if not isinstance(exc, I.InvalidInput):
                        how = f'solve() returned {ret!r}' if exc is None else f'{type(exc).__name__}'
                        listed = ''
                        if exc is None:
                            try:
                                listed = ' and lists it as an unsupplied input' if key in sv.unmet_input_dependencies() else ''
                            except Exception:
                                pass
                        v = ('invalid-input-not-reported-invalid', f'{itype}: the file holds {raw!r} (rejected by the validator) but {how}{listed}')
                    elif after != raw:
                        v = ('invalid-input-overwritten', f'{itype}: the rejected text {raw!r} was replaced by {after!r}')
                res.distinct.add(f'{itype}|{mode}|{sclass(s)}|{outcome}')
                if v:
                    cl = '' if v[0] == 'non-finite-number-accepted' else '|' + sclass(s)
                    res.violation(f'C11|{itype}|{v[0]}{cl}', f'[{mode}] {v[1]}', {'itype': itype, 'text': s, 'mode': mode, 'shard': spec})
                # what the line received
                if outcome == 'value':
                    st = [e for e in t.events if e[0] == 'STORE_LINE' and e[1] == f'c11.l_{itype}']
                    if st:
                        res.count('line_values_checked')
                        lv = st[-1][2]
                        exp = model(itype, raw)
                        if exp[0] == 'value':
                            e1 = exp[1]
                            if itype in ('str', 'regex', 'ssn'):
                                okl = lv == 'S' + e1 or (e1 == '' and lv in ('S', ''))
                            elif itype in ('enum', 'enum_empty'):
                                okl = (lv is None and e1 is None) or getattr(lv, 'name', None) == e1
                            elif itype == 'float':
                                okl = lv == round(e1, 9)
                            else:
                                okl = lv == e1
                            if not okl:
                                res.violation(f'C11|{itype}|line-received-other-value', f'{itype}: {raw!r}: line stored {lv!r}, expected from {e1!r}', {'itype': itype, 'text': s, 'mode': mode})
                if res.evaluations in (1, 200):
                    res.sample({'itype': itype, 'mode': mode, 'text': s, 'outcome': outcome, 'value': repr(value)})
                # history on the same store: the value that was read is deleted (then: not supplied) or replaced by other text
                # (then: that text decides) - through the store's own mapping interface, with a second solver
                if mode == 'file' and outcome == 'value' and n % 5 == 0:
                    good = [x for x in SEEDS[itype] if model(itype, x)[0] == 'value' and x.strip() != s.strip()]
                    for step in ('delete-another', 'delete', 'replace'):
                        try:
                            if step == 'delete-another':
                                # withdrawing an answer that was never given (another input of the same form) takes nothing else away
                                other = [t_ for t_ in TYPES if t_ != itype][n % (len(TYPES) - 1)]
                                del store[f'c11.{other}']
                            elif step == 'delete':
                                del store[key]
                            elif good:
                                store[key] = good[(n // 5) % len(good)]
                            else:
                                continue
                        except Exception:  # noqa
                            continue
                        with trace.Tracer() as t2:
                            sv2 = S.Solver(store, [cls], prompt=None)
                            try:
                                sv2.solve(['c11'], field_names=[f'c11.l_{itype}'])
                            except BaseException:  # noqa
                                pass
                        res.evaluations += 1
                        res.count('reads_after_' + step)
                        r2 = [e for e in t2.events if e[0] == 'READ_INPUT' and e[1] == key]
                        if not r2:
                            continue
                        ev2 = r2[-1]
                        if step == 'delete-another' and ev2[2] != 'value':
                            res.violation(f'C11|{itype}|supplied-input-gone-after-deleting-another', f'{itype}: {s!r} was supplied and read; after `del` of another (never given) input of the same form the read ended {ev2[2]}', {'itype': itype, 'text': s, 'mode': 'read-delete-other-read', 'shard': spec})
                        if step == 'delete' and ev2[2] == 'value':
                            res.violation(f'C11|{itype}|deleted-input-still-read', f'{itype}: {s!r} was read, then deleted from the store; the next read still returned {ev2[3]!r}', {'itype': itype, 'text': s, 'mode': 'read-delete-read', 'shard': spec})
                        if step == 'replace' and ev2[2] == 'value':
                            exp2 = model(itype, good[(n // 5) % len(good)])
                            got2 = getattr(ev2[3], 'name', ev2[3]) if itype in ('enum', 'enum_empty') else ev2[3]
                            if exp2[0] == 'value' and got2 != exp2[1] and not (isinstance(got2, float) and got2 == exp2[1]):
                                res.violation(f'C11|{itype}|replaced-input-read-stale', f'{itype}: {s!r} was read, then replaced by {good[(n // 5) % len(good)]!r}; the next read returned {ev2[3]!r}', {'itype': itype, 'text': s, 'mode': 'read-replace-read', 'shard': spec})
    finally:
        uninstall(saved)
    return res


def type_of_input(inp, I):
    if isinstance(inp, I.SSNInput):
        return 'ssn'
    if isinstance(inp, I.RegexInput):
        return None
    if isinstance(inp, I.EnumInput):
        return None
    if isinstance(inp, I.BooleanInput):
        return 'bool'
    if isinstance(inp, I.IntegerInput):
        return 'int'
    if isinstance(inp, I.FloatInput):
        return 'float'
    if isinstance(inp, I.StringInput):
        return 'str'
    return None


def run_catalogue(spec, tier, seed, res):
    """valid()/value() agreement for every input of every shipped form with
    type-specific corpora."""
    from hv import hx
    I = hx.inputs
    for year in hx.YEARS:
        for cls in hx.catalogue(year):
            fo = cls(instance=hx.instances_for(cls)[0])
            for inp in fo.inputs():
                it = type_of_input(inp, I)
                if isinstance(inp, I.EnumInput):
                    m0 = list(inp.enum.__members__)[0]
                    corpus = list(inp.enum.__members__)[:3] + ['', ' ', 'nosuch', m0.lower(), '__class__', f'"{m0}"', f"'{m0}'", f'{m0}"', '""', f'({m0})']
                elif isinstance(inp, I.RegexInput):
                    corpus = ['021000021', '12345678', '', 'abc', '1234-AB', '0' * 18]
                else:
                    corpus = SEEDS[it]
                for s in corpus:
                    res.evaluations += 1
                    res.count('catalogue_valid_value_pairs')
                    try:
                        ok = inp.valid(s)
                    except BaseException as e:  # noqa
                        res.violation(f'C11|catalogue|valid-raises|{type(inp).__name__}', f'{year} {inp.name()}: valid({s!r}) raised {type(e).__name__}', {'year': year, 'input': inp.name(), 'text': s})
                        continue
                    try:
                        val = ('value', inp.value(s))
                    except BaseException as e:  # noqa
                        val = ('raises', type(e).__name__)
                    res.distinct.add(f'cat|{type(inp).__name__}|{sclass(s)}|{ok}')
                    if ok and val[0] == 'raises':
                        res.violation(f'C11|catalogue|valid-but-value-raises|{type(inp).__name__}', f'{year} {inp.name()}: valid({s!r}) but value() raises {val[1]}', {'year': year, 'input': inp.name(), 'text': s})
                    if it and ok is True:
                        exp = model(it, s)
                        if exp[0] == 'invalid' and val[0] == 'value' and isinstance(val[1], float) and not math.isfinite(val[1]):
                            res.violation(f'C11|{it}|non-finite-number-accepted', f'{year} {inp.name()}: valid({s!r}) is True -> {val}', {'year': year, 'input': inp.name(), 'text': s})
                        elif exp[0] == 'invalid':
                            res.violation(f'C11|{it}|invalid-text-became-value|{sclass(s)}', f'{year} {inp.name()}: valid({s!r}) is True -> {val}', {'year': year, 'input': inp.name(), 'text': s})
                    if it and ok is False:
                        exp = model(it, s)
                        if exp[0] == 'value':
                            res.violation(f'C11|{it}|valid-text-rejected|{sclass(s)}', f'{year} {inp.name()}: valid({s!r}) is False', {'year': year, 'input': inp.name(), 'text': s})
    return res


def run_cliprompt(spec, tier, seed, res):
    """The interactive prompt loop re-asks until the answer is valid."""
    from hv import hx, cli, drive
    import os, tempfile
    cls = make_form(hx, required=True)
    hx.hforms.available_forms[2099] = [cls]
    try:
        for itype in TYPES:
            bad = [s for s in SEEDS[itype] if model(itype, s)[0] == 'invalid' and '\n' not in s][:6]
            good = [s for s in SEEDS[itype] if model(itype, s)[0] == 'value' and '\n' not in s][0]
            if not bad:
                continue
            with tempfile.TemporaryDirectory() as d:
                path = os.path.join(d, 'in.ini')
                script = list(bad) + [good]
                asked = []

                def inp(prompt, _script=script):
                    asked.append(prompt)
                    return _script.pop(0) if _script else 'x'
                # only the one line of this type is demanded: request via a one-line form is not possible from the CLI,
                # so all eight inputs are asked; others get their first valid seed
                valid_first = {t: [s for s in SEEDS[t] if model(t, s)[0] == 'value' and '\n' not in s][0] for t in TYPES}

                def inp2(prompt):
                    asked.append(prompt)
                    m = re.search(r'----\[ c11\.(\w+) \]', prompt)
                    cur = m.group(1) if m else inp2.cur
                    inp2.cur = cur
                    if cur == itype:
                        return script.pop(0) if script else good
                    return valid_first[cur]
                inp2.cur = None
                r = cli.run_cli(['solve', path, '--year', '2099', '--form', 'c11', '--prompt-missing', '--writeback-input'], input_fn=inp2)
                res.evaluations += 1
                res.count('cli_prompt_sessions')
                cp = drive.config_from(text=open(path).read())
                got = cp.get('c11', itype, raw=True) if cp.has_option('c11', itype) else None
                retries = sum(1 for p in asked if p.startswith('Invalid input'))
                res.count('cli_reasks', retries)
                res.distinct.add(f'cli|{itype}|{retries}')
                if r.exc is not None:
                    res.violation(f'C11|{itype}|cli-prompt-crash', f'{itype}: CLI raised {type(r.exc).__name__}: {r.exc}', {'itype': itype, 'script': bad + [good]})
                elif got is None or model(itype, got)[0] != 'value':
                    res.violation(f'C11|{itype}|cli-accepted-invalid-answer', f'{itype}: after answers {bad + [good]} the file holds {got!r}', {'itype': itype, 'script': bad + [good]})
                elif retries < len(bad):
                    res.violation(f'C11|{itype}|cli-accepted-invalid-answer', f'{itype}: only {retries} re-asks for {len(bad)} invalid answers {bad}; stored {got!r}', {'itype': itype, 'script': bad + [good]})
            # rejected answers followed by Ctrl-C: the rejected text must not be handed on as an answer
            with tempfile.TemporaryDirectory() as d:
                path = os.path.join(d, 'in.ini')
                script2 = list(bad[:2])

                def inp3(prompt):
                    m = re.search(r'----\[ c11\.(\w+) \]', prompt)
                    cur = m.group(1) if m else inp3.cur
                    inp3.cur = cur
                    if cur == itype:
                        if script2:
                            return script2.pop(0)
                        raise KeyboardInterrupt()
                    return valid_first[cur]
                inp3.cur = None
                r = cli.run_cli(['solve', path, '--year', '2099', '--form', 'c11', '--prompt-missing', '--writeback-input'], input_fn=inp3)
                res.evaluations += 1
                res.count('cli_prompt_sessions')
                cp = drive.config_from(text=open(path).read()) if os.path.exists(path) else drive.config_from({})
                got = cp.get('c11', itype, raw=True) if cp.has_option('c11', itype) else None
                res.distinct.add(f'cli-int|{itype}')
                if r.exc is not None:
                    res.violation(f'C11|{itype}|cli-rejected-answer-then-interrupt-crashes', f'{itype}: answers {bad[:2]} (rejected) then Ctrl-C: the CLI raised {type(r.exc).__name__}: {str(r.exc)[:80]} '
                                  f'instead of treating the input as not supplied', {'itype': itype, 'script': bad[:2] + ['<Ctrl-C>']})
                elif got is not None:
                    res.violation(f'C11|{itype}|cli-rejected-answer-stored', f'{itype}: answers {bad[:2]} (rejected) then Ctrl-C: the file holds {got!r}', {'itype': itype, 'script': bad[:2] + ['<Ctrl-C>']})
            # the input ends (Ctrl-D, a pipe that runs dry) when this input's turn comes: nobody supplied it, so it has no value
            # afterwards - the end of input is not an empty answer (blank text, 0, "no" ...)
            with tempfile.TemporaryDirectory() as d:
                path = os.path.join(d, 'in.ini')
                n_eof = [0]

                def inp4(prompt):
                    m = re.search(r'----\[ c11\.(\w+) \]', prompt)
                    cur = m.group(1) if m else inp4.cur
                    inp4.cur = cur
                    if cur == itype:
                        n_eof[0] += 1
                        if n_eof[0] > 50:
                            raise KeyboardInterrupt()       # (a loop that re-asks at the end of input for ever is C20's subject)
                        raise EOFError()
                    return valid_first[cur]
                inp4.cur = None
                r = cli.run_cli(['solve', path, '--year', '2099', '--form', 'c11', '--prompt-missing', '--writeback-input'], input_fn=inp4)
                res.evaluations += 1
                res.count('cli_prompt_sessions')
                res.count('cli_end_of_input_sessions')
                cp = drive.config_from(text=open(path).read()) if os.path.exists(path) else drive.config_from({})
                got = cp.get('c11', itype, raw=True) if cp.has_option('c11', itype) else None
                res.distinct.add(f'cli-eof|{itype}')
                if n_eof[0] and got is not None:
                    res.violation(f'C11|{itype}|cli-end-of-input-stored-as-an-answer', f'{itype}: the input ended when c11.{itype} was asked; the file holds {got!r} for it although nobody supplied it',
                                  {'itype': itype, 'script': ['<end of input>']})
                if n_eof[0] and 'Successfully solved' in r.stdout:
                    res.violation(f'C11|{itype}|cli-end-of-input-solved', f'{itype}: the input ended when c11.{itype} was asked and the run reports success', {'itype': itype, 'script': ['<end of input>']})
    finally:
        del hx.hforms.available_forms[2099]
    return res


def run_real(spec, tier, seed, res):
    """The same contract over every input read made by real lines."""
    from hv import hx, scen, realwork
    I = hx.inputs
    year = spec['year']
    runs = []
    for fam, p in [(fam, p) for fam in spec['families'] for p in scen.personas(seed, year, fam, spec['n'])] + list(scen.directed_personas(year, seed, 1)):
        out, tv, t = realwork.traced(p)
        runs.append((p, out, tv))
        # the numbered copies of the statements requested by name, last copy first, next to the return: every copy exists
        # before the lines of the first one are evaluated
        copies = sorted({k_.split('.')[0] for k_ in tv.stored if ':' in k_.split('.')[0] and k_.split('.')[0].split(':')[0] in realwork.INPUT_FORM_NAMES}, reverse=True)
        if len(copies) >= 2 and out.exc is None:
            q = scen.Persona(year, p.family, p.key, overrides=dict(p.answers))
            q.nc = p.nc
            out2, tv2, t2 = realwork.traced(q, forms=copies + list(p.forms()), file_map=dict(p.answers))
            runs.append((q, out2, tv2))
            res.count('real_runs_with_copies_requested')
    for p, out, tv in runs:
        if True:
            res.evaluations += 1
            # a line that read an absent (or rejected) input and nevertheless answered: the "missing" / "invalid" signal was swallowed
            # and something was used in its place
            open_reads = {}
            for ev in tv.events:
                if ev[0] == 'ATTEMPT_BEGIN':
                    open_reads[ev[1]] = []
                elif ev[0] == 'READ_INPUT' and ev[2] in ('missing', 'invalid') and ev[6] in open_reads:
                    open_reads[ev[6]].append((ev[1], ev[2]))
                elif ev[0] == 'ATTEMPT_END':
                    bad = open_reads.pop(ev[1], [])
                    res.count('real_attempts_checked')
                    if bad and ev[2] == 'value':
                        res.violation(f'C11|real|{bad[0][1]}-input-signal-swallowed', f'{year} {ev[1]}: read {bad[0][0]} ({bad[0][1]}) and still answered {ev[3]!r}', realwork.replay_of(p, 'base', spec))
            imap = getattr(out.solver, '_input_map', {})
            for (key, outcome, value, provided, raw, attempt) in tv.input_reads:
                inp = imap.get(key)
                if inp is None or outcome == 'nospec':
                    continue
                it = type_of_input(inp, I)
                res.count('real_input_reads_checked')
                if outcome == 'missing' and provided:
                    res.violation(f'C11|real|supplied-reported-missing', f'{year} {key}: supplied {raw!r} but reported missing', realwork.replay_of(p, 'base', spec))
                if outcome == 'value':
                    if not provided:
                        res.violation(f'C11|real|absent-input-defaulted', f'{year} {key}: absent but read returned {value!r}', realwork.replay_of(p, 'base', spec))
                    elif it:
                        v = judge(it, raw, provided, 'value', value, inp, I)
                        if v:
                            res.violation(f'C11|real|{v[0]}', f'{year} {key}: {v[1]}', realwork.replay_of(p, 'base', spec))
                    res.distinct.add(f'real|{type(inp).__name__}|{sclass(raw or "")}')
    return res


def finalize(res, tier):
    c = res.counters
    if c.get('reads_file', 0) < 7 * 2000:
        res.inconclusive.append('fewer than 14000 file reads')
    if c.get('icontract_evaluations', 0) == 0:
        res.inconclusive.append('icontract postconditions never evaluated')
    if c.get('real_input_reads_checked', 0) < 1000:
        res.inconclusive.append('fewer than 1000 input reads of real returns checked')
    if c.get('cli_reasks', 0) < 10:
        res.inconclusive.append('CLI prompt loop never re-asked')
    return {}
