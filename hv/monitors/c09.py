"""C09 - declaring an unsupported tax situation never yields a solved return.
Gate-read checker over traces: whenever a READ_INPUT event shows a curated gate
input (spec/gates.py) answered affirmatively, the verdict must not be 'solved'.
Directed workload: each gate is flipped in base scenarios that solve and read
it; limit-type gates by directed amounts."""
import os
import sys

from hv.common import Result, rng_for, VERIF_DIR

ID = 'C09'
LEVEL = 'exploration'
RULE = ('one evaluation = one traced solve; the oracle runs on every solve, deciding events are READ_INPUT of a curated gate with the affirmative '
        'answer; distinct_nontrivial = distinct (year, gate) pairs observed read-affirmative; limit-type gates are separate directed cases')
ASSUMPTIONS = [
    'spec/gates.py is the curated list of gate inputs (written from the input descriptions); a gate not read in a scenario imposes nothing',
    'an abort (unsupported form) satisfies the property: the solve does not succeed',
]


def gates_for(year, hx):
    sys.path.insert(0, os.path.join(VERIF_DIR, 'spec'))
    import gates as G
    out = {}
    fm = hx.form_map(year)
    for name, aff, reader, why in G.GATES:
        f, b = name.split('.', 1)
        cls = fm.get(f)
        if cls is None:
            continue
        fo = cls(instance=hx.instances_for(cls)[0])
        if any(i.base_name() == b and isinstance(i, hx.inputs.BooleanInput) for i in fo.inputs()):
            out[name] = (aff, reader, why)
    return out


INPUT_FORMS = {'w-2', '1098', '1099-int', '1099-div', '1099-g', '1099-r'}


def strip_instance(key):
    f, b = key.split('.', 1)
    return f.split(':')[0] + '.' + b


def plan(tier, seed):
    n = 6 if tier == 'quick' else 160
    sp = []
    for y in (2021, 2022, 2023):
        for part in range(4):
            sp.append({'kind': 'gates', 'year': y, 'part': part, 'of': 4, 'n': n})
        sp.append({'kind': 'limits', 'year': y})
        for part in range(2):
            sp.append({'kind': 'witness', 'year': y, 'part': part, 'of': 2, 'n': 3})
        if tier != 'quick':
            sp.append({'kind': 'multi', 'year': y, 'n': 1000})
    return sp


def oracle(res, year, gates, out, tv, label, rp, drive):
    """gate read affirmative => not solved.  Returns set of gates read affirmative."""
    hit = set()
    reads = list(tv.input_reads)
    # a gate that lives on an input form (W-2, 1099-R) is consulted through the
    # form's echo line: a READ_LINE of that line by a line of another form
    for ev in tv.events:
        if ev[0] == 'READ_LINE' and ev[2] and ev[4] is not None and strip_instance(ev[1]) in gates \
                and ev[4].split('.')[0] != ev[1].split('.')[0]:
            reads.append((ev[1], 'value', ev[3], True, None, ev[4]))
    for (key, outcome, value, provided, raw, attempt) in reads:
        if outcome != 'value':
            continue
        g = strip_instance(key)
        if attempt is not None and attempt == key and key.split('.')[0].split(':')[0] in INPUT_FORMS:
            continue        # the input form's own echo line, not a consultation
        spec = gates.get(g)
        if spec is None:
            continue
        aff, reader, why = spec
        if value is not aff:
            continue
        if reader is not None and (attempt is None or attempt.split('.')[0].split(':')[0] != reader):
            continue
        hit.add((g, attempt))
    # gates on input forms, judged on what the solution holds: a statement taking part
    # in the return declares the situation whether or not a line happened to look at the box
    vals = {k: v[-1] for k, v in tv.stored.items()}
    for k, v in vals.items():
        base = strip_instance(k)
        if base == 'w-2.box_13_statutory' and v is True and base in gates:
            hit.add((base, k))
        if base == '1099-r.box_2b_taxable_not_determined' and v is True and base in gates and year >= 2022:   # 2021 takes pensions from a yes/no gate, not from Forms 1099-R
            sec = k.split('.')[0]
            if vals.get(f'{sec}.box_7_ira_sep_simple') is False:      # a pension / annuity, not an IRA
                hit.add((base, k))
    res.count('gate_affirmative_reads', len(hit))
    for g, attempt in hit:
        res.distinct.add(f'{year}|{g}')
    if hit and out.exc is None and out.ret is True:
        for g, attempt in sorted(hit, key=str)[:3]:
            line = (attempt or '?').split(':')[0] if False else (attempt or '?')
            res.violation(f'C09|{year}|solved-despite-gate|{g}|{strip_instance(attempt) if attempt and "." in attempt else attempt}',
                          f'{label}: {attempt} read {g} = {gates[g][0]} ({gates[g][2]}) and the return still solved', rp)
    return {g for g, a in hit}


def run_shard(spec, tier, seed):
    from hv import hx, scen, realwork, drive
    res = Result()
    year = spec['year']
    gates = gates_for(year, hx)
    rng = rng_for('C09', seed, spec)
    witness = spec['kind'] == 'witness'
    if witness:
        # the same fixed returns whatever VERIF_SEED is: which gates they consult is a fact about
        # the tree under test, compared in finalize() with the committed list spec/gate_witness.json
        seed = 'W'
        rng = rng_for('C09', 'W', spec)
    if spec['kind'] in ('gates', 'witness'):
        # pool of solved bases with their traces
        pool = []
        sources = [(fam, p) for fam in scen.FAMILIES for p in scen.personas(seed, year, fam, spec['n'])]
        if witness:
            sources += list(scen.directed_personas(year, 0, 2))
        else:
            sources += [(fam_, p_) for fam_, p_ in scen.directed_personas(year, seed, 1)]     # purpose-built situations: flipped first
        directed_keys = {p_.key for _, p_ in sources if str(p_.key).startswith('dir')}
        for fam, p in sources:
            if True:
                out, tv, t = realwork.traced(p)
                res.evaluations += 1
                oracle(res, year, gates, out, tv, f'{year} {fam} {p.key}', realwork.replay_of(p, 'base', spec), drive)
                # (a purpose-built return is flipped even if it does not solve as it stands: a change that inverts a gate refuses
                # the "no" answer and lets the "yes" answer through)
                if out.exc is None and (out.ret is True or (p.key in directed_keys and not witness)):
                    reads = {}
                    for (key, outcome, value, provided, raw, attempt) in tv.input_reads:
                        if outcome == 'value':
                            reads.setdefault(strip_instance(key), set()).add(key)
                    pool.append((p, dict(p.answers), reads))
        res.count('solved_bases', len(pool))
        mine = [g for k, g in enumerate(sorted(gates)) if k % spec['of'] == spec['part']]
        for g in mine:
            aff = gates[g][0]
            bases = [(p, ans, reads[g]) for p, ans, reads in pool if g in reads]
            rng.shuffle(bases)
            if not witness:
                bases.sort(key=lambda b: 0 if b[0].key in directed_keys else 1)
            if g.split('.')[0] in INPUT_FORMS:
                bases.sort(key=lambda b: -len(b[2]))     # a box on a statement: returns with several copies first (each copy is flipped on its own)
            if not bases:
                res.add('gates_never_read_in_a_solved_base', f'{year}|{g}')
                continue
            nflip = 0
            ndir = sum(1 for b in bases if b[0].key in directed_keys)
            for p, ans, keys in (bases[:45] if witness else bases[:min(ndir, 40) + (3 if tier == 'quick' else 10)]):
                if witness and nflip:
                    break           # witness: every base is tried until the gate is reached once
                for key in sorted(keys)[:2]:
                    ov = dict(ans)
                    ov[key] = 'yes' if aff else 'no'
                    q = scen.Persona(p.year, p.family, p.key, overrides=ov)
                    q.nc = p.nc           # (a purpose-built filer decides by itself whether it files an N.C. return)
                    out, tv, t = realwork.traced(q)
                    res.evaluations += 1
                    res.count('directed_flips')
                    hit = oracle(res, year, gates, out, tv, f'{year} {p.family} {p.key} flip {key}', realwork.replay_of(q, f'flip:{key}', spec), drive)
                    if g in hit:
                        nflip += 1
                        res.add('gates_read_affirmative', f'{year}|{g}')
                        if witness:
                            res.add('witness_reached', f'{year}|{g}')
                        if nflip == 1 and not witness:
                            # the same declaration when the return is asked for first and another form afterwards, on the same Solver:
                            # what the first call found out is not forgotten by the second
                            more = ['1040_s1'] if '1040_s1' not in p.forms() else ['1040_sb']
                            q3 = scen.Persona(p.year, p.family, p.key, overrides=ov)
                            q3.nc = p.nc
                            out3, tv3, t3 = realwork.traced(q3, then_request=more)
                            res.evaluations += 1
                            res.count('directed_flips_two_calls')
                            oracle(res, year, gates, out3, tv3, f'{year} {p.family} {p.key} flip {key}, then {more[0]} requested in a second call', realwork.replay_of(q3, f'flip:{key}:two-calls', spec), drive)
                    else:
                        res.count('flips_where_gate_was_not_reached')
            if nflip == 0:
                res.add('gates_flipped_but_never_reached', f'{year}|{g}')
        if witness:
            res.add('witness_parts_done', f'{year}|{spec["part"]}')
        res.sample({'year': year, 'gates_in_this_shard': mine[:8], 'solved_bases': len(pool)})
        return res
    if spec['kind'] == 'limits':
        from hv import statutory as st
        cases = []
        # foreign tax above the Form 1116 election ceiling
        for status in ('S', 'MFJ', 'HOH', 'QSS', 'MFS'):
            lim = st.amount('form_1116_ceiling', year, status)
            cases.append((f'foreign-tax-over-1116-ceiling|{status}', 'F2', status, {'1099-int:0.box_6': f'{lim + 1:.2f}'}, {'1040.number_1099-int': '1'}, '1099-int:0.box_6'))
            # by a cent, and by less than half a dollar (the amounts are compared in cents, not in rounded dollars)
            cases.append((f'foreign-tax-a-cent-over-1116-ceiling|{status}', 'F2', status, {'1099-int:0.box_6': f'{lim + 0.01:.2f}', '1099-div:0.box_7': '0'}, {'1040.number_1099-int': '1'}, '1099-int:0.box_6'))
            cases.append((f'foreign-tax-49-cents-over-1116-ceiling|{status}', 'F2', status, {'1099-int:0.box_6': f'{lim + 0.49:.2f}', '1099-div:0.box_7': '0'}, {'1040.number_1099-int': '1'}, '1099-int:0.box_6'))
        # more payers than Schedule B has rows
        many_int = {'1040.number_1099-int': '15'}
        many_div = {'1040.number_1099-div': '15'}
        for k in range(15):      # enough interest / dividends that Schedule B is required
            many_int[f'1099-int:{k}.box_1'] = '200.00'
            many_div[f'1099-div:{k}.box_1a'] = '200.00'
            many_div[f'1099-div:{k}.box_1b'] = '0'
        cases.append(('more-than-14-interest-payers', 'F2', 'S', many_int, {}, '1040.number_1099-int'))
        cases.append(('more-than-14-dividend-payers', 'F2', 'S', many_div, {}, '1040.number_1099-div'))
        # the fifteenth payer is what lifts the total over 1,500 (the first fourteen stay below)
        edge_int = {k_: ('101.00' if k_.endswith('box_1') else v_) for k_, v_ in many_int.items()}
        edge_div = {k_: ('101.00' if k_.endswith('box_1a') else v_) for k_, v_ in many_div.items()}
        cases.append(('more-than-14-interest-payers-15th-crosses-threshold', 'F2', 'S', edge_int, {}, '1040.number_1099-int'))
        cases.append(('more-than-14-dividend-payers-15th-crosses-threshold', 'F2', 'S', edge_div, {}, '1040.number_1099-div'))
        # HSA contribution above the limit
        lim = st.amount('hsa_limit_self', year)
        cases.append(('hsa-contribution-over-limit', 'F4', 'S', {'8889:you.hsa_contributions': f'{lim + 1:.2f}', '8889:you.hdhp_plan_family': 'no', '1040_s1.hsa_contribution_you': 'yes',
                                                                 '1040.schedule_1_income_adjustments': 'yes', '8889:you.employer_contribution': '0'}, {}, '8889:you.hsa_contributions'))
        hsa = {'1040_s1.hsa_contribution_you': 'yes', '1040.schedule_1_income_adjustments': 'yes', '8889:you.age_under_55': 'yes', '8889:you.hsa_full_year': 'yes',
               '8889:you.archer_msa': '0', '8889:you.qualified_distribution': 'no', '8889:you.part_2_needed': 'no', '8889:you.part_3_needed': 'no'}
        # own contributions within the limit, but over it together with the employer's
        cases.append(('hsa-own-plus-employer-over-limit', 'F4', 'S', dict(hsa, **{'8889:you.hsa_contributions': f'{lim - 600:.2f}', '8889:you.hdhp_plan_family': 'no',
                                                                                   '8889:you.employer_contribution': '1500.00'}), {}, '8889:you.employer_contribution'))
        limf = st.amount('hsa_limit_family', year)
        cases.append(('hsa-family-contribution-over-limit', 'F4', 'S', dict(hsa, **{'8889:you.hsa_contributions': f'{limf + 1:.2f}', '8889:you.hdhp_plan_family': 'yes',
                                                                                     '8889:you.employer_contribution': '0'}), {}, '8889:you.hsa_contributions'))
        cases.append(('hsa-family-own-plus-employer-over-limit', 'F4', 'S', dict(hsa, **{'8889:you.hsa_contributions': f'{limf - 2000:.2f}', '8889:you.hdhp_plan_family': 'yes',
                                                                                          '8889:you.employer_contribution': '2000.50'}), {}, '8889:you.employer_contribution'))
        # a pension whose taxable amount is not determined, next to an IRA distribution, in both orders
        for fam_, q0 in scen.directed_personas(year, seed, 2):
            if fam_ != 'F9m':
                continue
            out0 = scen.solve_persona(q0)
            if out0.exc is not None or out0.ret is not True:
                continue
            ans = dict(q0.answers)
            for k_ in list(ans):
                if k_.endswith('.box_7_ira_sep_simple') and ans[k_] == 'no':
                    ans[k_.replace('box_7_ira_sep_simple', 'box_2b_taxable_not_determined')] = 'yes'
            q1 = scen.Persona(year, 'F9', q0.key, overrides=ans)
            q1.nc = False
            out2, tv2, t2 = realwork.traced(q1)
            res.evaluations += 1
            res.count('directed_flips')
            hit = oracle(res, year, gates, out2, tv2, f'{year} mixed IRA/pension 1099-R {q0.key}', realwork.replay_of(q1, 'mixed-1099-r', spec), drive)
            if '1099-r.box_2b_taxable_not_determined' in hit:
                res.add('gates_read_affirmative', f'{year}|1099-r.box_2b_taxable_not_determined')
        for name, fam, status, ov, pre, readkey in cases:
            done = 0
            for k in range(60):
                p = scen.Persona(year, fam, f'lim:{seed}:{k}', status=status)
                out = scen.solve_persona(p)
                if out.exc is not None or out.ret is not True:
                    continue
                ans = dict(p.answers)
                ans.update(pre)
                ans.update(ov)
                q = scen.Persona(year, fam, p.key, status=status, overrides=ans)
                out2, tv2, t2 = realwork.traced(q)
                res.evaluations += 1
                read = any(r[0] == readkey and r[1] == 'value' for r in tv2.input_reads)
                if not read:
                    res.count('limit_cases_amount_not_read')
                    continue
                done += 1
                res.count('limit_cases')
                res.distinct.add(f'{year}|limit|{name}')
                if out2.exc is None and out2.ret is True:
                    res.violation(f'C09|{year}|solved-beyond-limit|{name.split("|")[0]}', f'{year} {name}: the return solved although the amount is beyond the implemented limit ({ov})',
                                  realwork.replay_of(q, name, spec))
                if done >= 3:
                    break
            if done == 0:
                res.add('limit_gates_not_exercised', f'{year}|{name}')
        return res
    # multi-gate random flips
    for k in range(spec['n']):
        fam = rng.choice(scen.FAMILIES)
        p = scen.Persona(year, fam, f'multi:{seed}:{k}')
        out = scen.solve_persona(p)
        if out.exc is not None:
            continue
        ans = dict(p.answers)
        bools = [n for n, v in ans.items() if v in ('no',) and strip_instance(n) in gates]
        for g in rng.sample(bools, min(len(bools), rng.randint(1, 4))):
            ans[g] = 'yes'
        q = scen.Persona(year, fam, p.key, overrides=ans)
        out2, tv2, t2 = realwork.traced(q)
        res.evaluations += 1
        res.count('multi_flips')
        oracle(res, year, gates, out2, tv2, f'{year} {fam} {p.key} multi', realwork.replay_of(q, 'multi', spec), drive)
    return res


def finalize(res, tier):
    from hv import hx
    total = sum(len(gates_for(y, hx)) for y in (2021, 2022, 2023))
    seen = len(res.sets.get('gates_read_affirmative', ()))
    out = {'gates_curated': total, 'gates_read_affirmative_in_directed_flips': seen,
           'gates_never_read': sorted(res.sets.get('gates_never_read_in_a_solved_base', ())),
           'gates_flipped_but_never_reached': sorted(res.sets.get('gates_flipped_but_never_reached', ()))}
    import json
    wpath = os.path.join(VERIF_DIR, 'spec', 'gate_witness.json')
    reached = set(res.sets.get('witness_reached', ()))
    out['witness_gates_reached'] = len(reached)
    if os.environ.get('HV_WRITE_GATE_WITNESS'):
        out['witness_list'] = sorted(reached)
    if len(res.sets.get('witness_parts_done', ())) == 6 and os.path.exists(wpath):
        expected = set(json.load(open(wpath))['gates'])
        for wg in sorted(expected - reached):
            y_, g_ = wg.split('|')
            res.violation(f'C09|{y_}|gate-no-longer-consulted|{g_}', f'{y_}: the fixed witness returns no longer consult {g_} ({gates_for(int(y_), hx).get(g_, ("", "", "?"))[2]}): '
                          'declaring that unsupported situation leaves the return solved (the gate was dropped or is unreachable)', {'engine': 'witness', 'gate': wg})
        out['witness_gates_expected'] = len(expected)
        out['witness_gates_new'] = sorted(reached - expected)
    else:
        res.inconclusive.append('gate-witness shards incomplete or spec/gate_witness.json missing')
    if seen < 0.75 * total:
        res.inconclusive.append(f'only {seen} of {total} curated gates were observed read-affirmative')
    if res.counters.get('limit_cases', 0) < 9:
        res.inconclusive.append(f'only {res.counters.get("limit_cases", 0)} limit-type cases exercised')
    return out
