"""C10 - every name a form definition can refer to resolves.
The property is phrased over all syntactic paths; this family decides it by
*forced execution with measured arm coverage*: every line definition of every
form instance of every year is called directly with recording accessors that
resolve each key against the year's catalogue and hand back typed values drawn
to flip conditions, while sys.monitoring BRANCH events measure which arms of
which code objects actually ran.  A second part monitors the exception class
leaving real solves (personas, every form requested with all its optional
lines)."""
import dis
import re
import sys

from hv.common import Result, rng_for

ID = 'C10'
LEVEL = 'exploration'
RULE = ('one evaluation = one forced execution of one line definition with generated typed values (or one real solve); '
        'distinct_nontrivial = distinct (year, line definition, key referred to) references observed and resolved; '
        'arms_taken/arms_total measured with sys.monitoring BRANCH events on the code objects of the form modules')
ASSUMPTIONS = [
    'a reference is observed only when its arm executes: arms never taken are listed as not observed, not as held',
    'forms deliberately absent from the catalogue: 1040_s2, 1099-oid (a reference to them must abort as "not supported")',
    'TypeError / ZeroDivisionError / ValueError raised by a definition on forced (incoherent) values are not name errors and are ignored here',
]

ABSENT_OK = {'1040_s2', '1099-oid'}
TOOL = 3


def plan(tier, seed):
    runs = 60 if tier == 'quick' else 1000
    sp = []
    for y in (2021, 2022, 2023):
        sp.append({'kind': 'forced', 'year': y, 'runs': runs, 'part': 0, 'of': 2})
        sp.append({'kind': 'forced', 'year': y, 'runs': runs, 'part': 1, 'of': 2})
        sp.append({'kind': 'solves', 'year': y, 'n': 6 if tier == 'quick' else 200})
        sp.append({'kind': 'fieldnames', 'year': y, 'n': 2 if tier == 'quick' else 12})
    return sp


class Unresolved(Exception):
    pass


class AbsentForm(Exception):
    pass


class Catalogue(object):
    def __init__(self, hx, year):
        self.hx = hx
        self.year = year
        self.fm = hx.form_map(year)
        self.cache = {}
        self.solver = FakeSolver(self)

    def form(self, full):
        if full in self.cache:
            return self.cache[full]
        base = full.split(':')[0]
        if full.count(':') > 1:
            raise Unresolved(f'bad form name {full}')
        inst = full.split(':')[1] if ':' in full else None
        cls = self.fm.get(base)
        if cls is None:
            if base in ABSENT_OK:
                raise AbsentForm(base)
            raise Unresolved(f'form {base} is not in the {self.year} catalogue')
        allowed = self.hx.instances_for(cls)
        if hasattr(cls, 'valid_instances'):
            if inst not in cls.valid_instances:
                raise Unresolved(f'form {base} has no instance {inst!r}')
        elif issubclass(cls, self.hx.form.InputForm):
            if inst is None or not inst.isdigit():
                raise Unresolved(f'input form {base} needs a numbered copy, got {inst!r}')
        elif inst is not None:
            raise Unresolved(f'form {base} takes no instance, got {inst!r}')
        fo = cls(instance=inst, solver=self.solver)
        self.cache[full] = fo
        fo._hv_inputs = {i.base_name(): i for i in fo.inputs()}
        fo._hv_fields = {f.base_name(): f for f in fo.fields()}
        return fo


class FakeSolver(object):
    def __init__(self, cat):
        self.cat = cat

    @property
    def forms(self):
        cat = self.cat

        class Forms(dict):
            def __getitem__(s, k):
                return cat.form(k)

            def __contains__(s, k):
                try:
                    cat.form(k)
                    return True
                except (Unresolved, AbsentForm):
                    return False
        return Forms()


def consts_of(code, acc=None):
    acc = acc if acc is not None else set()
    for c in code.co_consts:
        if isinstance(c, (int, float)) and not isinstance(c, bool):
            acc.add(float(c))
        elif hasattr(c, 'co_consts'):
            consts_of(c, acc)
    return acc


BRANCH_OPS = ('POP_JUMP_IF_TRUE', 'POP_JUMP_IF_FALSE', 'POP_JUMP_IF_NONE', 'POP_JUMP_IF_NOT_NONE', 'FOR_ITER', 'SEND')


def branch_count(code):
    n = 0
    for ins in dis.get_instructions(code):
        if ins.opname in BRANCH_OPS and ins.opname != 'SEND':
            n += 1
    return n


def run_forced(spec, seed, res):
    from hv import hx
    F, I, V = hx.fields, hx.inputs, hx.values
    year = spec['year']
    cat = Catalogue(hx, year)
    rng = rng_for('C10', seed, year, spec['part'])
    formdir = f'forms/ty{year}/'
    arms = {}            # (code key) -> set of (src, dst)
    codes = {}           # code key -> code object
    mon = sys.monitoring
    mon.use_tool_id(TOOL, 'hv-c10')

    def on_branch(code, src, dst):
        if formdir not in code.co_filename or 'figure_tax' in code.co_filename:
            return mon.DISABLE
        k = (code.co_filename, code.co_firstlineno, code.co_name)
        arms.setdefault(k, set()).add((src, dst))
        codes[k] = code
        return None

    def on_start(code, off):
        if formdir not in code.co_filename or 'figure_tax' in code.co_filename:
            return mon.DISABLE
        k = (code.co_filename, code.co_firstlineno, code.co_name)
        codes[k] = code
        arms.setdefault(k, set())
        return None
    mon.register_callback(TOOL, mon.events.BRANCH, on_branch)
    mon.register_callback(TOOL, mon.events.PY_START, on_start)
    mon.set_events(TOOL, mon.events.BRANCH | mon.events.PY_START)
    refs = set()
    try:
        all_forms = []
        for cls in hx.catalogue(year):
            for inst in hx.instances_for(cls)[:2]:
                all_forms.append((cls.form_name, inst))
        k = 0
        for fname, inst in all_forms:
            full = fname if inst is None else f'{fname}:{inst}'
            fo = cat.form(full)
            if issubclass(type(fo), hx.form.InputForm):
                continue
            for fld in fo.fields():
                k += 1
                if k % spec['of'] != spec['part']:
                    continue
                force_line(res, hx, cat, fo, fld, rng, spec, refs, year)
    finally:
        mon.set_events(TOOL, 0)
        mon.register_callback(TOOL, mon.events.BRANCH, None)
        mon.register_callback(TOOL, mon.events.PY_START, None)
        mon.free_tool_id(TOOL)
    taken = total = 0
    not_taken = []
    for kkey, code in codes.items():
        n = branch_count(code)
        total += 2 * n
        t = len(arms.get(kkey, ()))
        taken += min(t, 2 * n)
        if t < 2 * n:
            not_taken.append(f'{kkey[0].split("/")[-1]}:{kkey[1]}:{kkey[2]} {t}/{2 * n}')
    res.count('arms_taken', taken)
    res.count('arms_total', total)
    res.count('code_objects_executed', len(codes))
    res.extra.setdefault('arms_not_taken', []).extend(not_taken[:40])
    for r in refs:
        res.distinct.add(r)


def gen_value(rng, kind, consts, enumcls=None, allow_empty=False):
    if kind == 'bool':
        return rng.random() < 0.5
    if kind == 'int':
        return rng.choice([0, 0, 1, 2, 3, 4, 5, 14, 15])
    if kind == 'float':
        r = rng.random()
        if consts and r < 0.5:
            c = rng.choice(sorted(consts))
            return round(c + rng.choice([-1.0, -0.01, 0.0, 0.01, 1.0, 1000.0]), 2)
        return rng.choice([0.0, 0.0, 0.0005, 1.0, 500.0, 1500.5, 25000.0, 150000.0, 450000.0, 2000000.0])
    if kind == 'enum':
        members = list(enumcls)
        if allow_empty and rng.random() < 0.2:
            return None
        return rng.choice(members)
    return rng.choice(['Text', 'NC', '', '123456789'])


def force_line(res, hx, cat, fo, fld, rng, spec, refs, year):
    F, I = hx.fields, hx.inputs
    code = getattr(getattr(fld, '_value', None), '__func__', None)
    consts = consts_of(code.__code__) if code is not None else set()
    lname = fld.name()
    shortl = f'{fo.name().split(":")[0]}.{fld.base_name()}'
    seen_err = set()

    def V_(kind, msg, key=''):
        sig = (kind, key)
        if sig in seen_err:
            return
        seen_err.add(sig)
        res.violation(f'C10|{year}|{shortl}|{kind}|{key}', f'{year} {lname}: {msg}', {'engine': 'forced', 'year': year, 'line': lname, 'shard': spec})

    for run in range(spec['runs']):
        memo = {}

        class RI(object):
            def __getitem__(s, key):
                q = key if '.' in key else f'{fo.name()}.{key}'
                if q in memo:
                    return memo[q]
                f, b = q.split('.', 1)
                tfo = cat.form(f)
                inp = tfo._hv_inputs.get(b)
                if inp is None:
                    raise Unresolved(f'input {q} (form {f.split(":")[0]} declares no input {b!r})')
                refs.add(f'{year}|{shortl}|i|{f.split(":")[0]}.{b}')
                if isinstance(inp, I.BooleanInput):
                    v = gen_value(rng, 'bool', consts)
                elif isinstance(inp, I.IntegerInput):
                    v = gen_value(rng, 'int', consts)
                elif isinstance(inp, I.FloatInput):
                    v = gen_value(rng, 'float', consts)
                elif isinstance(inp, I.EnumInput):
                    v = gen_value(rng, 'enum', consts, inp.enum, inp.allow_empty)
                else:
                    v = gen_value(rng, 'str', consts)
                memo[q] = v
                return v

        class RV(object):
            def __getitem__(s, key):
                q = key if '.' in key else f'{fo.name()}.{key}'
                if ('v', q) in memo:
                    return memo[('v', q)]
                f, b = q.split('.', 1)
                tfo = cat.form(f)
                tf = tfo._hv_fields.get(b)
                if tf is None:
                    raise Unresolved(f'line {q} (form {f.split(":")[0]} defines no line {b!r})')
                refs.add(f'{year}|{shortl}|v|{f.split(":")[0]}.{b}')
                if isinstance(tf, F.BooleanField):
                    v = gen_value(rng, 'bool', consts)
                elif isinstance(tf, F.IntegerField):
                    v = gen_value(rng, 'int', consts)
                elif isinstance(tf, F.FloatField):
                    v = gen_value(rng, 'float', consts)
                elif isinstance(tf, F.EnumField):
                    v = gen_value(rng, 'enum', consts, tf.enum(), True)
                else:
                    v = gen_value(rng, 'str', consts)
                memo[('v', q)] = v
                return v
        res.evaluations += 1
        try:
            fld.value(RI(), RV())
            res.count('forced_ok')
        except F.FieldNotImplemented:
            res.count('forced_unimplemented')
        except AbsentForm:
            res.count('forced_absent_form')
        except Unresolved as e:
            m = re.search(r'(input|line|form) ([^ ]+)', str(e))
            V_('unresolved-' + (m.group(1) if m else 'name'), f'refers to {e}', (m.group(2) if m else str(e))[:60])
        except (AttributeError, NameError, KeyError, AssertionError, RecursionError, UnboundLocalError, ImportError) as e:
            tb = e.__traceback__
            while tb.tb_next:
                tb = tb.tb_next
            if isinstance(e, AssertionError) and 'figure_tax' in tb.tb_frame.f_code.co_filename:
                # the tax function asked for an amount outside its domain (a forced, incoherent taxable income): C07's subject
                res.count('forced_incoherent_value_errors')
            else:
                V_(type(e).__name__, f'{type(e).__name__}: {str(e)[:140]}', re.sub(r'[^A-Za-z_]+', ' ', str(e))[:50].strip())
        except (TypeError, ZeroDivisionError, ValueError, OverflowError, IndexError):
            res.count('forced_incoherent_value_errors')
        except BaseException as e:  # noqa
            V_('other-' + type(e).__name__, f'{type(e).__name__}: {str(e)[:140]}')


def classify_solve_exception(e):
    """Exception classes that must never leave a real solve (C10)."""
    if isinstance(e, (RecursionError, AttributeError, KeyError, NameError, AssertionError, UnboundLocalError)):
        return type(e).__name__
    return None


def run_solves(spec, seed, res):
    from hv import hx, scen, realwork, drive
    year = spec['year']
    for fam in scen.FAMILIES:
        for p in scen.personas(seed, year, fam, spec['n']):
            out = scen.solve_persona(p)
            res.evaluations += 1
            res.count('real_solves')
            res.count('real_' + drive.verdict_class(out).split(':')[0])
            res.distinct.add(f'solve|{year}|{fam}|{drive.verdict_class(out)}')
            if out.exc is not None:
                c = classify_solve_exception(out.exc)
                if c:
                    res.violation(f'C10|{year}|solve|{c}|{re.sub(r"[^A-Za-z_.0-9:-]+", " ", str(out.exc))[:60].strip()}',
                                  f'{year} {fam} {p.key}: solve() died with {c}: {str(out.exc)[:160]}', realwork.replay_of(p, 'base', spec))
                elif isinstance(out.exc, RuntimeError) and 'is not defined by its form' in str(out.exc):
                    m = re.search(r'Input (\S+) \(needed by (\S+)\)', str(out.exc))
                    res.violation(f'C10|{year}|{m.group(2) if m else "?"}|unresolved-input|{m.group(1) if m else "?"}',
                                  f'{year} {fam} {p.key}: {out.exc}', realwork.replay_of(p, 'base', spec))
                elif isinstance(out.exc, NotImplementedError):
                    m = re.search(r'Form (\S+) is not supported', str(out.exc))
                    if not m or m.group(1) not in ABSENT_OK:
                        res.violation(f'C10|{year}|solve|unsupported-form|{m.group(1) if m else "?"}', f'{year} {fam} {p.key}: {out.exc}', realwork.replay_of(p, 'base', spec))
                    else:
                        res.count('aborts_deliberately_absent_form')


def run_fieldnames(spec, seed, res):
    """Every form requested on its own with ALL its optional lines, under the
    real solver with persona answers: executes each definition with real stores."""
    from hv import hx, scen, realwork, drive
    year = spec['year']
    for k in range(spec['n']):
        for cls in hx.catalogue(year):
            if issubclass(cls, hx.form.InputForm):
                continue
            for inst in hx.instances_for(cls)[:2]:
                full = cls.form_name if inst is None else f'{cls.form_name}:{inst}'
                fo = cls(instance=inst)
                names = [f.name() for f in fo.fields()]
                p = scen.Persona(year, ['F8', 'F2', 'F3', 'F4', 'F5', 'F1'][k % 6], f'fn:{seed}:{k}')
                classes = hx.catalogue(year)
                cp = drive.config_from({})
                request = [full] if full == '1040' else ['1040', full]     # every form is used next to Form 1040
                out = drive.run_solver(classes, cp, request, field_names=names, answer=lambda m, nb: p.answer(m))
                res.evaluations += 1
                res.count('fieldname_solves')
                res.distinct.add(f'fn|{year}|{full}|{drive.verdict_class(out)}')
                if out.exc is not None:
                    c = classify_solve_exception(out.exc)
                    if c:
                        res.violation(f'C10|{year}|solve:{cls.form_name}|{c}|{re.sub(r"[^A-Za-z_.0-9:-]+", " ", str(out.exc))[:60].strip()}',
                                      f'{year} solving {full} with all optional lines: {c}: {str(out.exc)[:160]}', {'engine': 'fieldnames', 'year': year, 'form': full, 'persona': p.describe(), 'shard': spec})
                    elif isinstance(out.exc, RuntimeError) and 'is not defined by its form' in str(out.exc):
                        m = re.search(r'Input (\S+) \(needed by (\S+)\)', str(out.exc))
                        res.violation(f'C10|{year}|{m.group(2) if m else "?"}|unresolved-input|{m.group(1) if m else "?"}', f'{year} solving {full}: {out.exc}',
                                      {'engine': 'fieldnames', 'year': year, 'form': full, 'shard': spec})


def run_shard(spec, tier, seed):
    res = Result()
    if spec['kind'] == 'forced':
        run_forced(spec, seed, res)
        res.sample({'year': spec['year'], 'mode': 'forced execution', 'runs_per_line': spec['runs'], 'example_refs': sorted(res.distinct)[:6]})
    elif spec['kind'] == 'solves':
        run_solves(spec, seed, res)
    else:
        run_fieldnames(spec, seed, res)
    return res


def finalize(res, tier):
    c = res.counters
    at, tot = c.get('arms_taken', 0), c.get('arms_total', 1)
    if tot < 500:
        res.inconclusive.append(f'branch monitoring saw only {tot} arms')
    elif at / tot < 0.85:
        res.inconclusive.append(f'arm coverage {at}/{tot} below 85 %')
    if c.get('real_solves', 0) < 100:
        res.inconclusive.append('fewer than 100 real solves monitored')
    return {'arm_coverage': f'{at}/{tot} = {100.0 * at / max(1, tot):.1f} %', 'arms_not_taken_examples': res.extra.get('arms_not_taken', [])[:30]}
