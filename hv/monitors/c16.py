"""C16 - returns respond to input changes the way tax law requires.
Metamorphic monitor over pairs/tuples of real solves: copy renumbering,
monotonicity of total tax in wages and deductible expenses, and exact
pass-through of withholding into refund-minus-owed."""
import itertools
import re

from hv.common import Result, rng_for

ID = 'C16'
LEVEL = 'exploration'
RULE = ('one evaluation = one transformed solve compared with its base; only pairs in which both returns solve are compared; '
        'distinct_nontrivial = distinct (year, transformation kind, input transformed) for which at least one compared pair changed some line')
ASSUMPTIONS = [
    'copy amounts differ by at least $1, so a permutation bug cannot hide inside the 1-cent tolerance that absorbs float summation order',
    'monotonicity is asserted only for the relations the property names (wages up => line 24 not down; deductible expense up => line 24 not up)',
]

COPY_FORMS = ['w-2', '1099-int', '1099-div', '1099-r', '1099-g', '1098']
LISTING = re.compile(r'^1040_sb\.(1|5)_(payer|amount)_\d+$')
DEDUCTIBLE = ['1040_sa.medical_dental_expenses', '1040_sa.state_local_real_estate_taxes', '1040_sa.state_local_personal_property_taxes',
              '1040_sa.other_taxes_amount', '1040_sa.other_mortgage_interest', '1040_sa.other_mortgage_points', '1040_sa.charitable_cash_check',
              '1040_sa.charitable_other_than_cash_check', '1040_sa.charitable_carryover', '1040_sa.other_itemized',
              '1040_s1.educator_expenses', '1040_s1.alimony_paid', '1040_s1.traditional_ira_deduction', '1040_s1.other_adjustments_amount',
              '8889:you.hsa_contributions', '8889:spouse.hsa_contributions', '1040.charitable_contributions_std_ded']


def plan(tier, seed):
    from hv import scen
    n = 4 if tier == 'quick' else 150
    sp = []
    fams = ['F0', 'F1', 'F2', 'F3', 'F4', 'F5', 'F6', 'F7', 'F8', 'F9', 'F10']
    for y in (2021, 2022, 2023):
        for g in ([fams[0:4], fams[4:8], fams[8:]] if tier == 'quick' else [[f] for f in fams]):
            sp.append({'year': y, 'families': g, 'n': n})
        sp.append({'kind': 'edges', 'year': y})
        for part in range(1 if tier == 'quick' else 4):
            sp.append({'year': y, 'directed': True, 'n': 1 if tier == 'quick' else 10, 'part': part})
    return sp


def solve_file(year, forms, answers):
    from hv import scen
    q = scen.Persona(year, 'F0', 'c16-replay', overrides=answers)
    q.nc = 'nc_d-400' in forms
    return scen.solve_persona(q, file_map=dict(answers), forms=forms)


def typed(out):
    from hv import scen
    return scen.typed_solution(out)


def fnum(x):
    return float(x) if x.strip() else 0.0


def run_edges(spec, tier, seed, res):
    """Wage increments that cross a step of a status-indexed table: the NC child
    deduction bands (a dollar more of AGI may only lower the deduction) and the
    federal bracket / table rows are crossed by +50 from just below each edge."""
    from hv import scen, realwork
    from hv import statutory as st
    year = spec['year']
    f1098 = [{'box_1': 3000.0, 'box_6': 0.0, 'box_4': 0.0, 'box_5': 0.0}]
    for status in ('S', 'MFJ', 'MFS', 'HOH'):
        for edge, amt in st.NC_CHILD[year][status]:
            for nkids in (1, 3):
                base_p = scen.plain_persona(year, status, edge - 20, key=f'edge:{status}:{edge}', deps_ctc=nkids, nc=True, n_1098=1, f1098=f1098)
                b = scen.solve_persona(base_p)
                if b.exc is not None or b.ret is not True:
                    res.count('edge_bases_unsolved')
                    continue
                ans = dict(base_p.answers)
                bt = scen.typed_solution(b)
                for inc in (50, 250):
                    a2 = dict(ans)
                    for box in ('box_1', 'box_3', 'box_5', 'box_16'):
                        k_ = f'w-2:0.{box}'
                        if k_ in a2:
                            a2[k_] = f'{fnum(a2[k_]) + inc:.2f}'
                    o = solve_file(year, base_p.forms(), a2)
                    res.evaluations += 1
                    if o.exc is not None or o.ret is not True:
                        continue
                    t = typed(o)
                    res.count('pairs_compared')
                    res.count('pairs_edge')
                    res.distinct.add(f'{year}|edge|{status}|{edge}')
                    for line, name in (('nc_d-400.17', 'NC income tax (D-400 line 17)'), ('1040.24', 'total tax (line 24)')):
                        if line in t and line in bt and t[line] < bt[line] - 0.51:
                            res.violation(f'C16|{year}|wages+|band-edge|{line}', f'{year} {status} {nkids} children: wages {edge - 20} -> {edge - 20 + inc} lowered {name} from {bt[line]} to {t[line]}',
                                          {'engine': 'scen', 'persona': base_p.describe(), 'increment': inc, 'shard': spec})


def run_use_tax_edge(spec, tier, seed, res):
    """N.C. taxable income stepping over the limits of the consumer use tax table (estimated use tax, no records), in
    particular over its end at 45,200 where the table gives way to a rate: the total N.C. tax never falls."""
    from hv import scen
    from hv import statutory as st
    year = spec['year']
    for lim in (st.NC_USE_TAX_LIMITS[-1], st.NC_USE_TAX_LIMITS[-2], st.NC_USE_TAX_LIMITS[0], st.NC_USE_TAX_LIMITS[12]):
        p0 = scen.plain_persona(year, 'S', 60000.0, key=f'usetaxedge:{lim}', nc=True)
        p0.ncv.update({'no_consumer_use_tax': False, 'full_records': False})
        o0 = scen.solve_persona(p0)
        if o0.exc is not None or o0.ret is not True:
            continue
        l14 = scen.typed_solution(o0).get('nc_d-400.14')
        if l14 is None:
            continue
        seq = []
        for d in (-40.0, -1.0, 0.0, 10.0, 260.0, 560.0, 2000.0):
            p = scen.plain_persona(year, 'S', 60000.0 + (lim + d - l14), key=f'usetaxedge:{lim}:{d}', nc=True)
            p.ncv.update({'no_consumer_use_tax': False, 'full_records': False})
            o = scen.solve_persona(p)
            res.evaluations += 1
            if o.exc is not None or o.ret is not True:
                continue
            t = scen.typed_solution(o)
            seq.append((d, t.get('nc_d-400.14'), t.get('nc_d-400.19'), t.get('nc_d-400.18'), p))
        for (d0, i0, t0, u0, _), (d1, i1, t1, u1, p1) in zip(seq, seq[1:]):
            res.count('pairs_compared')
            res.count('pairs_use_tax_edge')
            res.distinct.add(f'{year}|use-tax-edge|{lim}|{d1}')
            if t0 is not None and t1 is not None and t1 < t0 - 0.51:
                res.violation(f'C16|{year}|wages+|use-tax-table-edge|nc_d-400.19', f'{year}: N.C. taxable income {i0} -> {i1} (wages +{d1 - d0}) lowered the total N.C. tax (line 19) from {t0} to {t1} (use tax {u0} -> {u1})',
                              {'engine': 'scen', 'persona': p1.describe(), 'shard': spec})


def run_shard(spec, tier, seed):
    from hv import scen, drive, realwork
    res = Result()
    year = spec['year']
    if spec.get('kind') == 'edges':
        run_edges(spec, tier, seed, res)
        run_use_tax_edge(spec, tier, seed, res)
        return res
    rng = rng_for('C16', seed, spec)
    todo = list(scen.directed_personas(year, f"{seed}:{spec['part']}" if spec.get('part') else seed, spec['n'])) if spec.get('directed') else [(fam, p) for fam in spec['families'] for p in scen.personas(seed, year, fam, spec['n'])]
    for fam, p in todo:
        if True:
            out = scen.solve_persona(p)
            if out.exc is not None or out.ret is not True:
                res.count('unsolved_bases')
                continue
            base_ans = dict(p.overrides)      # what a purpose-built filer would answer to questions the base return does not ask
            base_ans.update(p.answers)
            # make copy amounts differ by >= $1 (and re-solve the base from the file)
            forms = p.forms()
            b0 = solve_file(year, forms, base_ans)
            if b0.exc is not None or b0.ret is not True:
                res.count('unsolved_bases')
                continue
            base = typed(b0)
            base_ans = dict(b0.final_inputs) if False else base_ans
            res.count('bases')
            rp = realwork.replay_of(p, 'base', spec)

            def compare(name, ans, check, inputname):
                o = solve_file(year, forms, ans)
                res.evaluations += 1
                res.count('pairs_attempted')
                if o.exc is not None or o.ret is not True:
                    res.count('pairs_skipped_unsolved')
                    return
                res.count('pairs_compared')
                res.count('pairs_' + name.split(':')[0])
                t = typed(o)
                if any(t.get(k) != base.get(k) for k in set(t) | set(base)):
                    res.distinct.add(f'{year}|{name.split(":")[0]}|{inputname}')
                msg = check(t)
                if msg:
                    res.violation(f'C16|{year}|{name.split(":")[0]}|{re.sub(r":[0-9]+", "", inputname)}', f'{year} {fam} {p.key} [{name}]: {msg}', dict(rp, transform=name, changed={k: ans[k] for k in ans if base_ans.get(k) != ans[k]}))

            # ---- (a) renumbering of copies
            for cf in COPY_FORMS:
                nkey = f'1040.number_{cf}'
                n = int(base_ans.get(nkey, '0') or 0)
                if n < 2:
                    continue
                perms = list(itertools.permutations(range(n)))[1:]
                if tier == 'quick':
                    perms = perms[:2]
                for perm in perms:
                    ans = {}
                    for k, v in base_ans.items():
                        m = re.match(r'^' + re.escape(cf) + r':(\d+)\.(.*)$', k)
                        if m and int(m.group(1)) < n:
                            ans[f'{cf}:{perm[int(m.group(1))]}.{m.group(2)}'] = v
                        else:
                            ans[k] = v

                    def chk(t, cf=cf, perm=perm, n=n):
                        for k in set(t) | set(base):
                            sec = k.split('.')[0]
                            if sec.split(':')[0] == cf or LISTING.match(k):
                                continue
                            a, b = base.get(k), t.get(k)
                            if isinstance(a, float) and isinstance(b, float):
                                if abs(a - b) > 0.011:
                                    return f'renumbering the {cf} copies by {perm} changed {k}: {a} -> {b}'
                            elif a != b:
                                return f'renumbering the {cf} copies by {perm} changed {k}: {a!r} -> {b!r}'
                        # the copies themselves are only renamed
                        for i in range(n):
                            for k in [k for k in base if k.startswith(f'{cf}:{i}.')]:
                                k2 = f'{cf}:{perm[i]}.' + k.split('.', 1)[1]
                                if base[k] != t.get(k2):
                                    return f'copy {cf}:{i} is not found unchanged as {cf}:{perm[i]} ({k}: {base[k]!r} vs {t.get(k2)!r})'
                        # Schedule B listing: same multiset of (payer, amount) rows
                        for part in ('1', '5'):
                            rows = lambda s: sorted((str(s.get(f'1040_sb.{part}_payer_{j}', '')), s.get(f'1040_sb.{part}_amount_{j}', 0.0)) for j in range(14))
                            if rows(base) != rows(t):
                                return f'Schedule B part {part} rows differ as multisets after renumbering {cf}'
                        return None
                    compare(f'renumber:{cf}', ans, chk, cf)
            # ---- (b) more wages never lower total tax
            if int(base_ans.get('1040.number_w-2', '0') or 0) > 0:
                for inc in (1, 50, 1000, 25000):
                    k = rng.randrange(int(base_ans['1040.number_w-2']))
                    ans = dict(base_ans)
                    for box in ('box_1', 'box_3', 'box_5', 'box_16'):
                        key = f'w-2:{k}.{box}'
                        if key in ans:
                            ans[key] = f'{fnum(ans[key]) + inc:.2f}'

                    def chk(t, inc=inc):
                        if t.get('1040.24', 0.0) < base.get('1040.24', 0.0) - 0.011:
                            return f'wages +{inc} lowered total tax (line 24) from {base.get("1040.24")} to {t.get("1040.24")}'
                        if 'nc_d-400.17' in t and 'nc_d-400.17' in base and t['nc_d-400.17'] < base['nc_d-400.17'] - 0.51:
                            return f'wages +{inc} lowered the NC income tax (D-400 line 17) from {base["nc_d-400.17"]} to {t["nc_d-400.17"]}'
                        if 'nc_d-400.19' in t and 'nc_d-400.19' in base and t['nc_d-400.19'] < base['nc_d-400.19'] - 0.51:
                            return f'wages +{inc} lowered the total NC tax (D-400 line 19, with the consumer use tax) from {base["nc_d-400.19"]} to {t["nc_d-400.19"]}'
                        return None
                    compare(f'wages+:{inc}', ans, chk, 'w-2.box_1')
            # ---- (b') a larger deductible expense never raises total tax
            present = [d for d in DEDUCTIBLE if d in base_ans]
            for d in (present if (tier != 'quick' or spec.get('directed')) else rng.sample(present, min(5, len(present)))):
                inc = rng.choice([1, 50, 1000, 25000])
                ans = dict(base_ans)
                try:
                    ans[d] = f'{fnum(ans[d]) + inc:.2f}'
                except ValueError:
                    continue

                def chk(t, d=d, inc=inc):
                    if t.get('1040.24', 0.0) > base.get('1040.24', 0.0) + 0.011:
                        return f'{d} +{inc} raised total tax (line 24) from {base.get("1040.24")} to {t.get("1040.24")}'
                    if 'nc_d-400.17' in t and 'nc_d-400.17' in base and t['nc_d-400.17'] > base['nc_d-400.17'] + 0.51:
                        return f'{d} +{inc} raised the NC income tax (D-400 line 17) from {base["nc_d-400.17"]} to {t["nc_d-400.17"]}'
                    if 'nc_d-400.19' in t and 'nc_d-400.19' in base and t['nc_d-400.19'] > base['nc_d-400.19'] + 0.51:
                        return f'{d} +{inc} raised the total NC tax (D-400 line 19) from {base["nc_d-400.19"]} to {t["nc_d-400.19"]}'
                    return None
                mech = d
                # mechanism of a known finding: in 2021 the larger expense switches the return to itemizing, which
                # forfeits the non-itemizer charitable deduction on line 12b
                probe = solve_file(year, forms, ans)
                if probe.exc is None and probe.ret is True:
                    tp = typed(probe)
                    if year == 2021 and not base.get('1040.itemizing') and tp.get('1040.itemizing') and base.get('1040.12b', 0.0) > 0 \
                            and tp.get('1040.12c', 0.0) < base.get('1040.12c', 0.0):
                        mech = 'itemizing-switch-forfeits-line-12b'
                compare(f'deduction+:{inc}', ans, chk, mech)
            # ---- (c) each extra dollar withheld moves refund-minus-owed by one dollar
            wh = [k for k in base_ans if re.match(r'^(w-2:\d+\.box_2|1099-(int|div|r):\d+\.box_4|1040\.other_federal_withholding)$', k)]
            if '1040.other_federal_withholding' in wh and tier == 'quick':
                wh.remove('1040.other_federal_withholding')
                o = solve_file(year, forms, dict(base_ans, **{'1040.other_federal_withholding': f'{fnum(base_ans["1040.other_federal_withholding"]) + 37:.2f}'}))
                res.evaluations += 1
                if o.exc is None and o.ret is True:
                    t = typed(o)
                    res.count('pairs_compared')
                    res.count('pairs_withholding+')
                    res.distinct.add(f'{year}|withholding+|1040.other_federal_withholding')
                    d0 = base.get('1040.34', 0.0) - base.get('1040.37', 0.0)
                    d1 = t.get('1040.34', 0.0) - t.get('1040.37', 0.0)
                    if abs((d1 - d0) - 37) > 0.011:
                        res.violation(f'C16|{year}|withholding+|1040.other_federal_withholding', f'{year} {fam} {p.key}: other federal withholding +37 moved refund-minus-owed by {d1 - d0:.2f}'
                                      + (' (Form 8959 in the return)' if any(k.startswith('8959.') for k in base) else ''), dict(rp, transform='withholding+:other'))
            for k in (wh if tier != 'quick' else rng.sample(wh, min(3, len(wh)))):
                inc = rng.choice([1, 50, 1000.25])
                ans = dict(base_ans)
                ans[k] = f'{fnum(ans[k]) + inc:.2f}'

                def chk(t, k=k, inc=inc):
                    d0 = base.get('1040.34', 0.0) - base.get('1040.37', 0.0)
                    d1 = t.get('1040.34', 0.0) - t.get('1040.37', 0.0)
                    if abs((d1 - d0) - inc) > 0.011:
                        return f'{k} +{inc} moved refund-minus-owed by {d1 - d0:.2f}'
                    return None
                compare(f'withholding+:{inc}', ans, chk, re.sub(r':\d+', '', k))
            # ---- (c'') Medicare tax withheld (W-2 box 6) when Form 8959 reconciles it and finds an excess (line 22 > 0): dollar for dollar
            w6 = sum(fnum(v_) for k_, v_ in base_ans.items() if re.match(r'^w-2:\d+\.box_6$', k_))
            w5 = sum(fnum(v_) for k_, v_ in base_ans.items() if re.match(r'^w-2:\d+\.box_5$', k_))
            # (Form 8959 instructions, "Who must file": Medicare wages on any single Form W-2 above $200,000 - the employer then had to
            # withhold the additional tax, and only Form 8959 brings it to line 25c; decided from the statements, not from what the return filed)
            one_over = any(fnum(v_) > 200000.0 for k_, v_ in base_ans.items() if re.match(r'^w-2:\d+\.box_5$', k_))
            if (any(k_.startswith('8959.') for k_ in base) or one_over) and w6 - 0.0145 * w5 > 1.0:      # (the excess figured from the statements themselves)
                for k in sorted(k_ for k_ in base_ans if re.match(r'^w-2:\d+\.box_6$', k_)):
                    inc = rng.choice([1, 25])
                    ans = dict(base_ans)
                    ans[k] = f'{fnum(ans[k]) + inc:.2f}'

                    def chk(t, k=k, inc=inc):
                        d0 = base.get('1040.34', 0.0) - base.get('1040.37', 0.0)
                        d1 = t.get('1040.34', 0.0) - t.get('1040.37', 0.0)
                        if abs((d1 - d0) - inc) > 0.011:
                            return f'{k} +{inc} (Medicare tax withheld, reconciled on Form 8959 with an excess of {base.get("8959.22")}) moved refund-minus-owed by {d1 - d0:.2f}'
                        return None
                    compare(f'withholding+:{inc}', ans, chk, 'medicare/' + re.sub(r':\d+', '', k))
                    res.count('pairs_medicare_withholding+')
            # ---- (c') the same for N.C. tax withheld (W-2 box 17 / the state boxes of the 1099s, when the state is NC)
            if 'nc_d-400.23' in base or 'nc_d-400.25' in base:
                pairs = ((r'^w-2:\d+\.box_17$', 'box_15'), (r'^1099-int:\d+\.box_17_1$', 'box_15_1'), (r'^1099-div:\d+\.box_16_1$', 'box_14_1'),
                         (r'^1099-g:\d+\.box_11_1$', 'box_10a_1'), (r'^1099-r:\d+\.box_14_1$', 'box_14_1_state'),
                         # the second state row of each statement
                         (r'^1099-int:\d+\.box_17_2$', 'box_15_2'), (r'^1099-div:\d+\.box_16_2$', 'box_14_2'),
                         (r'^1099-g:\d+\.box_11_2$', 'box_10a_2'), (r'^1099-r:\d+\.box_14_2$', 'box_14_2_state'))
                swh = []
                for k in sorted(base_ans):
                    for pat, statebox in pairs:
                        if re.match(pat, k) and base_ans.get(k.split('.')[0] + '.' + statebox, '').strip().upper() == 'NC':
                            swh.append(k)
                for k in (swh if (tier != 'quick' or spec.get('directed')) else rng.sample(swh, min(3, len(swh)))):
                    inc = rng.choice([1, 10, 250])
                    ans = dict(base_ans)
                    ans[k] = f'{fnum(ans[k]) + inc:.2f}'

                    def chk(t, k=k, inc=inc):
                        d0 = base.get('nc_d-400.28', 0.0) - base.get('nc_d-400.26a', 0.0)
                        d1 = t.get('nc_d-400.28', 0.0) - t.get('nc_d-400.26a', 0.0)
                        if abs((d1 - d0) - inc) > 0.51:
                            return f'{k} +{inc} (N.C. tax withheld, owner {base_ans.get(k.split(".")[0] + ".belongs_to")}) moved the N.C. overpayment-minus-tax-due by {d1 - d0:.2f}'
                        return None
                    # mechanism probe: the whole-dollar line this box goes into (20a for the taxpayer's and joint statements, 20b for
                    # the spouse's) is a sum ending in exactly 50 cents, before or after the increment (it is the same fraction)
                    grp = 'spouse' if base_ans.get(k.split('.')[0] + '.belongs_to') == 'spouse' else 'you'
                    tot = sum(fnum(base_ans[k2]) for k2 in swh if ('spouse' if base_ans.get(k2.split('.')[0] + '.belongs_to') == 'spouse' else 'you') == grp)
                    half = abs((round(tot * 100) % 100) - 50) < 1e-6
                    compare(f'withholding+:{inc}', ans, chk, 'nc/' + re.sub(r':\d+', '', k) + ('|sum-ends-in-50-cents' if half else ''))
                    res.count('pairs_nc_withholding+')
            if len(res.samples) < 1:
                res.sample({'persona': p.describe(), 'pairs_compared_so_far': res.counters.get('pairs_compared', 0)})
    return res


def finalize(res, tier):
    c = res.counters
    for k in ('pairs_renumber', 'pairs_wages+', 'pairs_deduction+', 'pairs_withholding+'):
        if c.get(k, 0) < 20:
            res.inconclusive.append(f'{k} = {c.get(k, 0)} (< 20)')
    return {}
