"""C07 - income tax follows the statutory rate schedule.
Postcondition monitor on the real figure_tax(), driven directly over the
amount space, with a reference built only from the statutory brackets and the
IRS table layout (hv/statutory.py)."""
import math
import sys
from fractions import Fraction as F

from hv.common import Result, rng_for
from hv import statutory as st

ID = 'C07'
LEVEL = 'exploration'
RULE = ('each evaluation is one call figure_tax(amount, status) on the working tree compared with the statutory '
        'reference; distinct_nontrivial counts distinct (year, status-column, table row or bracket) cells with a '
        'non-zero reference tax that were observed; thorough tier enumerates every whole dollar in [0,100000)')
ASSUMPTIONS = [
    'the reference (hv/statutory.py) transcribes Rev. Proc. 2020-45/2021-45/2022-38 section 3.01 correctly',
    'IRS tax-table entries are the bracket tax at the row midpoint rounded half-up to whole dollars',
    'amounts are whole cents in [0, 1e12]',
]


def plan(tier, seed):
    if tier == 'quick':
        return [{'year': y, 'mode': 'quick'} for y in st.YEARS] + [{'year': y, 'mode': 'solves', 'n': 12} for y in st.YEARS] + [{'year': y, 'mode': 'optimized', 'n': 300} for y in st.YEARS]
    specs = [{'year': y, 'mode': 'solves', 'n': 300} for y in st.YEARS] + [{'year': y, 'mode': 'optimized', 'n': 20000} for y in st.YEARS]
    for y in st.YEARS:
        for lo in range(0, 100000, 12500):
            specs.append({'year': y, 'mode': 'dollars', 'lo': lo, 'hi': lo + 12500})
        specs.append({'year': y, 'mode': 'quick'})
        specs.append({'year': y, 'mode': 'above', 'n': 500000})
    return specs


def _rows():
    rows = [(0, 5), (5, 15), (15, 25)]
    lo = 25
    while lo < 3000:
        rows.append((lo, lo + 25))
        lo += 25
    while lo < 100000:
        rows.append((lo, lo + 50))
        lo += 50
    return rows


def _coalesce(rows):
    rows = sorted(set(rows))
    out = []
    for lo, hi in rows:
        if out and out[-1][1] == lo:
            out[-1][1] = hi
        else:
            out.append([lo, hi])
    return out


def run_solves(spec, tier, seed):
    """The same postcondition on the tax function *as the forms call it*: the name
    `figure_tax` bound in the year's Form 1040 and capital-gain worksheet modules is
    wrapped while real returns are solved (catches a form module bound to another
    year's function, or a wrong argument)."""
    import importlib
    from hv import hx, scen
    year = spec['year']
    res = Result()
    mods = [importlib.import_module(f'habutax.forms.ty{year}.f1040'), importlib.import_module(f'habutax.forms.ty{year}.f1040_qualdiv_capgain_tax_wkst')]
    saved = [(m, m.figure_tax) for m in mods]

    def wrap(orig, modname):
        def figure_tax(amount, status):
            got = orig(amount, status)
            code = st.STATUS_BY_MEMBER.get(getattr(status, 'name', None))
            res.evaluations += 1
            res.count('tax_calls_in_solves')
            if code is not None and 0 <= amount <= st.MAX_SUPPORTED:
                kind, ref = st.reference_tax(year, code, F(str(amount)))
                ok = (got == ref) if kind == 'table' else abs(F(got) - ref) <= F(1, 100)
                res.distinct.add(f'{year}|{code}|solve|{"row" + str(st.table_row(F(str(amount)))[0]) if kind == "table" else "formula"}')
                if not ok:
                    res.violation(f'C07|{year}|in-solve-mismatch|{code}|{modname}', f'{year} {modname}: figure_tax({amount}, {status.name}) returned {got}; the {year} schedule gives {float(ref)}',
                                  {'year': year, 'amount': amount, 'status': status.name, 'module': modname, 'shard': spec})
            return got
        return figure_tax
    for m, orig in saved:
        m.figure_tax = wrap(orig, m.__name__.split('.')[-1])
    try:
        todo = [(fam, p) for fam in ('F0', 'F1', 'F2', 'F6', 'F9') for p in scen.personas(seed, year, fam, spec['n'])]
        # taxable incomes with cents: in the last dollar of a table row, just above 100,000, in every bracket
        rng = rng_for('C07solve', seed, spec)
        for j in range(spec['n']):
            for code in ('S', 'MFJ', 'HOH'):
                sd = st.amount('standard_deduction', year, code)
                for taxable in (rng.choice(range(3000, 99950, 50)) + 49.75, 100000.0 + round(rng.uniform(0.01, 900), 2), round(10 ** rng.uniform(5.05, 5.7), 2)):
                    todo.append(('plain', scen.plain_persona(year, code, round(taxable + sd, 2), key=f'c07:{j}', deps_odc=1 if code == 'HOH' else 0)))
        # line 11 and line 14 both with cents (a qualified-business-income deduction of 20 % of REIT dividends on line 13) such that
        # their difference is a row boundary of the Tax Table in decimal arithmetic but one unit in the last place BELOW it in binary
        # floating point: the tax belongs to the amount printed on line 15, not to the raw difference
        found = 0
        for _ in range(4000):
            if found >= (3 if tier == 'quick' else 40):
                break
            code = rng.choice(['S', 'MFJ', 'HOH', 'MFS', 'QSS'])
            sd = st.amount('standard_deduction', year, code)
            d = round(rng.uniform(50, 400), 2)
            B = float(rng.choice(range(30000, 99950, 50)))
            b = round(float(sd) + round(0.2 * d, 2), 2)
            a = round(B + b, 2)
            if not (a - b < B and round(a - b, 2) == B):
                continue
            found += 1
            p = scen.plain_persona(year, code, round(a - d, 2), key=f'c07ulp:{found}', deps_odc=1 if code in ('HOH', 'QSS') else 0, n_div=1,
                                   divs=[{'box_1a': d, 'box_1b': 0.0, 'box_2a': 0.0, 'box_4': 0.0, 'box_5': d, 'box_7': 0.0, 'box_16_1': 0.0}])
            p.ulp_low = (a, b, B)
            todo.append(('ulp-below-a-row-boundary', p))
        for fam, p in todo:
            out = scen.solve_persona(p)
            if getattr(p, 'ulp_low', None) and out.exc is None and out.ret is True:
                sol_ = scen.typed_solution(out)
                if sol_.get('1040.11') == p.ulp_low[0] and sol_.get('1040.14') == p.ulp_low[1] and sol_.get('1040.15') == p.ulp_low[2]:
                    res.count('returns_one_ulp_below_a_row_boundary')
                    res.distinct.add(f'{year}|ulp-low|{p.ulp_low[2]}')
            if out.exc is not None or out.ret is not True:
                continue
            sol = scen.typed_solution(out)
            code = st.STATUS_BY_MEMBER.get(getattr(sol.get('1040.filing_status'), 'name', None))
            if code is None or '1040.15' not in sol or '1040.16' not in sol or any(k.startswith('1040_qualdiv_capgain_tax_wkst.') for k in sol):
                continue
            kind, ref = st.reference_tax(year, code, F(str(sol['1040.15'])))
            res.count('line16_vs_schedule')
            if abs(F(str(sol['1040.16'])) - ref) > F(1, 100):
                res.violation(f'C07|{year}|line-16-not-the-schedule-tax-of-line-15|{code}', f'{year} {fam} {code}: taxable income (line 15) {sol["1040.15"]} has schedule tax {float(ref)} but line 16 is {sol["1040.16"]}',
                              {'engine': 'scen', 'persona': p.describe(), 'shard': spec})
    finally:
        for m, orig in saved:
            m.figure_tax = orig
    res.sample({'year': year, 'mode': 'figure_tax as called by Form 1040 / capital gain worksheet during real solves', 'calls': res.counters.get('tax_calls_in_solves', 0)})
    return res


CHILD = '''
import importlib, json, sys
year = int(sys.argv[1])
mod = importlib.import_module(f'habutax.forms.ty{year}.f1040_figure_tax')
import habutax.forms
fo = [c for c in habutax.forms.available_forms[year] if c.form_name == '1040'][0]()
enum = None
for i in fo.inputs():
    if i.base_name() == 'filing_status':
        enum = i.enum
pts = json.load(sys.stdin)
out = {'optimized': sys.flags.optimize, 'results': {}}
for m in enum:
    r = []
    for a in pts:
        try:
            r.append(mod.figure_tax(a, m))
        except BaseException as e:
            r.append('!' + type(e).__name__)
    out['results'][m.name] = r
json.dump(out, sys.stdout)
'''


def run_optimized(spec, tier, seed):
    """The same postcondition with the interpreter's assertions switched off (`python -O`, PYTHONOPTIMIZE): the function must not
    lean on a failing `assert` to choose between the Tax Table and the worksheet.  A child process of the repository's interpreter
    evaluates figure_tax on row ends, bracket edges and amounts above 100,000 for every status; the parent compares with the schedules."""
    import json
    import os
    import subprocess
    from hv import hx
    from hv.common import REPO
    year = spec['year']
    res = Result()
    rng = rng_for('C07opt', seed, spec)
    pts = {0.0, 0.01, 99999.99, 100000.0, 100000.01, 100001.0, float(st.MAX_SUPPORTED)}
    for code in (st.S, st.MFJ, st.MFS, st.HOH):
        for e in st.BRACKETS[year][code]:
            for d in (-1, -0.01, 0, 0.01, 1):
                pts.add(round(e + d, 2))
    for _ in range(spec['n']):
        pts.add(round(rng.uniform(0, 100000), 2))
        pts.add(round(10 ** rng.uniform(5, 7), 2))
        lo = rng.choice(range(3000, 100000, 50))
        pts.update([float(lo), lo + 49.99])
    pts = sorted(p for p in pts if 0 <= p <= st.MAX_SUPPORTED)
    env = dict(os.environ, PYTHONPATH=REPO, PYTHONDONTWRITEBYTECODE='1')
    env.pop('PYTHONOPTIMIZE', None)
    try:
        pr = subprocess.run([sys.executable, '-O', '-W', 'ignore', '-c', CHILD, str(year)], input=json.dumps(pts), capture_output=True, text=True, timeout=600, env=env, cwd='/')
        got = json.loads(pr.stdout)
    except Exception as e:  # noqa
        res.inconclusive.append(f'{year}: the optimized-mode child process gave no result: {type(e).__name__}: {str(e)[:200]}')
        return res
    if not got.get('optimized'):
        res.inconclusive.append(f'{year}: the child process did not run in optimized mode')
        return res
    for name, vals in got['results'].items():
        code = st.STATUS_BY_MEMBER.get(name)
        if code is None:
            continue
        bad = None
        for a, v in zip(pts, vals):
            res.evaluations += 1
            kind, ref = st.reference_tax(year, code, F(str(a)))
            ok = isinstance(v, (int, float)) and not isinstance(v, bool) and ((v == ref) if kind == 'table' else abs(F(v) - ref) <= F(1, 100))
            if ok:
                res.count('postcondition_ok_optimized')
                res.distinct.add(f'{year}|{code}|O|{"table" if kind == "table" else "formula"}|{int(a) // 5000}')
            elif bad is None:
                bad = (a, v, float(ref))
        if bad:
            res.violation(f'C07|{year}|optimized-mode-mismatch|{code}', f'{year} {name} under `python -O`: figure_tax({bad[0]}) returned {bad[1]!r}; the {year} schedule gives {bad[2]}',
                          {'year': year, 'status': name, 'amount': bad[0], 'interpreter': 'python -O', 'shard': spec})
    res.sample({'year': year, 'mode': 'python -O child', 'amounts': len(pts), 'statuses': len(got['results'])})
    return res


def run_shard(spec, tier, seed):
    if spec['mode'] == 'solves':
        return run_solves(spec, tier, seed)
    if spec['mode'] == 'optimized':
        return run_optimized(spec, tier, seed)
    from hv import hx
    year = spec['year']
    res = Result()
    mod = hx.figure_tax_module(year)
    figure_tax = mod.figure_tax
    enum = hx.status_enum(year)
    members = list(enum)
    rng = rng_for('C07', seed, spec)
    bad_rows = {}     # (kind, statuscode) -> list of rows
    bad_above = {}    # (kind, statuscode, bracket idx) -> example
    examples = {}
    prev = {}

    def check(amount, member, derived=True):
        code = st.STATUS_BY_MEMBER[member.name]
        res.evaluations += 1
        kind, ref = st.reference_tax(year, code, F(str(amount)))
        try:
            got = figure_tax(amount, member)
        except BaseException as e:  # noqa
            got = e
        if isinstance(got, BaseException):
            k = 'undefined'
            ok = False
        elif not isinstance(got, (int, float)) or isinstance(got, bool) or (isinstance(got, float) and not math.isfinite(got)):
            k, ok = 'nonnumeric', False
        elif kind == 'table':
            ok = got == ref
            k = 'mismatch'
        else:
            ok = abs(F(got) - ref) <= F(1, 100)
            k = 'mismatch'
        if kind == 'table':
            row = st.table_row(F(str(amount)))
            cell = f'{year}|{code}|row{row[0]}'
        else:
            edges = st.BRACKETS[year][code]
            bi = sum(1 for e in edges if amount > e)
            cell = f'{year}|{code}|bracket{bi}'
        if ref != 0:
            res.distinct.add(cell)
        if not ok:
            ex = {'year': year, 'status': member.name, 'amount': amount,
                  'got': repr(got), 'expected': str(float(ref))}
            if kind == 'table':
                bad_rows.setdefault((k, code), []).append(row)
                examples.setdefault((k, code, 'table'), ex)
            else:
                bad_above.setdefault((k, code, bi), ex)
            return None
        res.count('postcondition_ok')
        return got

    statuses = members
    if spec['mode'] == 'quick':
        pts = set()
        for lo, hi in _rows():
            pts.update([float(lo), round(lo + 0.01, 2), (lo + hi) / 2.0, round(hi - 0.01, 2)])
        for code in (st.S, st.MFJ, st.MFS, st.HOH):
            for e in st.BRACKETS[year][code]:
                for d in (-1, -0.01, 0, 0.01, 1):
                    pts.add(round(e + d, 2))
        pts.update([99999.99, 100000.0, 100000.01, 99999.0, 100001.0, float(st.MAX_SUPPORTED), 0.0, 0.01])
        for _ in range(2000):
            pts.add(round(10 ** rng.uniform(0, 12), 2))
        pts = sorted(p for p in pts if 0 <= p <= st.MAX_SUPPORTED)
        for member in statuses:
            last = None
            lastamt = None
            for a in pts:
                got = check(a, member)
                if got is not None and last is not None:
                    res.count('derived_checks')
                    code = st.STATUS_BY_MEMBER[member.name]
                    if got < last - 1e-9:
                        res.violation(f'C07|{year}|decreasing|{code}', f'{year} {member.name}: tax decreases from {last} at {lastamt} to {got} at {a}',
                                      {'year': year, 'status': member.name, 'amounts': [lastamt, a]})
                    step = 50 * 0.37 + 1
                    if got - last > 0.37 * (a - lastamt) + step + 1e-6:
                        res.violation(f'C07|{year}|jump|{code}', f'{year} {member.name}: tax rises by {got-last} between {lastamt} and {a}',
                                      {'year': year, 'status': member.name, 'amounts': [lastamt, a]})
                if got is not None:
                    last, lastamt = got, a
        # qualifying surviving spouse == married filing jointly on the observed function
        mfj = [m for m in members if st.STATUS_BY_MEMBER[m.name] == st.MFJ][0]
        qss = [m for m in members if st.STATUS_BY_MEMBER[m.name] == st.QSS][0]
        for a in pts[::7]:
            try:
                x, y = figure_tax(a, mfj), figure_tax(a, qss)
            except BaseException:
                continue
            res.count('derived_checks')
            if x != y:
                res.violation(f'C07|{year}|qss-ne-mfj', f'{year}: QSS {y} != MFJ {x} at {a}', {'year': year, 'amount': a})
        res.sample({'year': year, 'status': 'Single', 'amount': 10325.0,
                    'figure_tax': repr(_safe(figure_tax, 10325.0, members[0])),
                    'reference': str(st.reference_tax(year, st.S, 10325)[1])})
    elif spec['mode'] == 'dollars':
        for member in statuses:
            for a in range(spec['lo'], spec['hi']):
                check(float(a), member)
        res.extra['exhaustive_dollar_ranges'] = [[year, spec['lo'], spec['hi']]]
        res.sample({'year': year, 'mode': 'every whole dollar', 'range': [spec['lo'], spec['hi']], 'statuses': [m.name for m in statuses]})
    elif spec['mode'] == 'above':
        for member in statuses:
            for _ in range(spec['n'] // len(statuses)):
                a = round(10 ** rng.uniform(5, 12), 2)
                check(a, member)
        res.sample({'year': year, 'mode': 'log-uniform samples in [1e5,1e12]', 'n': spec['n']})

    for (k, code), rows in bad_rows.items():
        for lo, hi in _coalesce(rows):
            ex = examples[(k, code, 'table')]
            # a hole in the table hits every column; report it once without the column
            keycode = '' if k == 'undefined' else f'|{code}'
            res.violation(f'C07|{year}|{k}{keycode}|rows {lo}-{hi}',
                          f'{year} tax table {k} for incomes [{lo},{hi}) ({code}); e.g. {ex}',
                          {'shard': spec, 'example': ex, 'rows': [lo, hi]})
    for (k, code, bi), ex in bad_above.items():
        res.violation(f'C07|{year}|{k}|{code}|bracket{bi}', f'{year} {code} worksheet bracket {bi}: {ex}', {'shard': spec, 'example': ex})
    return res


def _safe(fn, *a):
    try:
        return fn(*a)
    except BaseException as e:  # noqa
        return e


def finalize(res, tier):
    need = 3 * 4 * 1000
    if len(res.distinct) < need:
        res.inconclusive.append(f'only {len(res.distinct)} distinct cells observed (< {need})')
    if res.counters.get('tax_calls_in_solves', 0) < 100:
        res.inconclusive.append('the tax function was observed fewer than 100 times inside real solves')
    out = {'exhaustive': tier == 'thorough'}
    if tier == 'thorough':
        rng = res.extra.get('exhaustive_dollar_ranges', [])
        covered = sum(hi - lo for _, lo, hi in rng)
        out['whole_dollars_enumerated_per_status'] = covered
        if covered != 3 * 100000:
            res.inconclusive.append(f'whole-dollar enumeration incomplete: {covered} of 300000')
    return out
