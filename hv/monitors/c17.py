"""C17 - catalogue consistency; total status lookups.  Exhaustive execution:
every (year, class, allowed instance) is instantiated and inspected live, every
(threshold table, status) pair is looked up through the real Form.threshold,
and every form goes through `list-forms` / `list-form-inputs` in-process."""
import configparser
import re

from hv.common import Result

ID = 'C17'
LEVEL = 'exploration'
RULE = ('exhaustive: one evaluation per (year, form class, allowed instance) instantiation, per (threshold table, status) lookup '
        'and per CLI listing; distinct_nontrivial = distinct (year, form, instance) triples instantiated + distinct (year, form, table, status) lookups')
ASSUMPTIONS = ['allowed instances: valid_instances where declared, numbered copies 0-2 for input forms, none otherwise',
               'threshold tables are observed through the `thresholds` argument each form passes to Form.__init__']


def plan(tier, seed):
    return [{'year': y} for y in (2021, 2022, 2023)] + [{'kind': 'callsites', 'year': y, 'n': 1 if tier == 'quick' else 6} for y in (2021, 2022, 2023)]


def run_callsites(spec, tier, seed):
    """The look-ups the line definitions really make: purpose-built returns of all five statuses are solved with EVERY line of every
    participating form asked for (optional lines included), with Form.threshold wrapped; a look-up that raises is reported with its call site."""
    from hv import hx, scen, drive, realwork
    FM = hx.form
    year = spec['year']
    res = Result()
    failed = []
    seen = set()
    orig = FM.Form.threshold

    def threshold(self, name, *a, **kw):
        try:
            v = orig(self, name, *a, **kw)
        except BaseException as e:  # noqa
            failed.append((self.name(), name, [getattr(x, 'name', x) for x in a], f'{type(e).__name__}: {str(e)[:160]}'))
            raise
        seen.add((self.name().split(':')[0], name, tuple(getattr(x, 'name', str(x)) for x in a)))
        return v
    FM.Form.threshold = threshold
    try:
        for fam, p in scen.directed_personas(year, seed, spec['n']):
            out = scen.solve_persona(p)
            res.evaluations += 1
            if out.exc is not None:
                continue
            forms = list(out.solver.forms)
            if any(getattr(fo_, '_thresholds', None) for fo_ in out.solver.forms.values()):
                res.count('returns_with_forms_declaring_amount_tables')
            names = [fld.name() for f in forms for fld in out.solver.forms[f].fields()]
            del failed[:]
            classes = hx.catalogue(year)
            o2 = drive.run_solver(classes, drive.config_from(dict(p.answers)), forms, field_names=names, answer=lambda m, nb: p.answer(m), sort_key=drive.plain_name_key)
            res.evaluations += 1
            res.count('returns_solved_with_every_line_asked_for')
            for form, name, args, err in failed:
                res.violation(f'C17|{year}|{form.split(":")[0]}|lookup-fails-at-call-site|{name}', f'{year} {fam} {p.key} ({p.status}): a line of the return looks up {name!r}{args} on {form} and the look-up fails: {err}',
                              realwork.replay_of(p, 'all-lines', spec))
    finally:
        FM.Form.threshold = orig
    for k in seen:
        res.distinct.add(f'{year}|callsite|{k[0]}|{k[1]}|{k[2]}')
    res.count('distinct_lookups_made_by_lines', len(seen))
    if not seen and res.counters.get('returns_with_forms_declaring_amount_tables'):
        res.inconclusive.append(f'{year}: forms declare amount tables but no line made a look-up')
    return res


def run_shard(spec, tier, seed):
    from hv import hx, cli
    FM = hx.form
    if spec.get('kind') == 'callsites':
        return run_callsites(spec, tier, seed)
    year = spec['year']
    res = Result()
    cat = hx.catalogue(year)
    statuses = list(hx.status_enum(year))

    def V(form, kind, msg, extra=None):
        res.violation(f'C17|{year}|{form}|{kind}', f'{year} {form}: {msg}', {'year': year, 'form': form, 'kind': kind, 'shard': spec, 'extra': extra})

    names = {}
    for cls in cat:
        fn = getattr(cls, 'form_name', None)
        names.setdefault(fn, []).append(cls.__name__)
    for fn, cl in names.items():
        if len(cl) > 1:
            V(fn, 'duplicate-form-name', f'form name shared by classes {cl}')
    captured = {}
    orig_init = FM.Form.__init__

    def init(self, child_cls, *a, **kw):
        captured[id(self)] = kw.get('thresholds', a[3] if len(a) > 3 else {})
        return orig_init(self, child_cls, *a, **kw)
    FM.Form.__init__ = init
    try:
        for cls in cat:
            fname = getattr(cls, 'form_name', cls.__name__)
            if getattr(cls, 'tax_year', None) != year:
                V(fname, 'wrong-tax-year', f'class {cls.__name__} is catalogued for {year} but declares tax_year = {getattr(cls, "tax_year", None)}')
            for attr in ('description', 'long_description'):
                v = getattr(cls, attr, None)
                if not isinstance(v, str) or not v.strip():
                    V(fname, 'missing-' + attr, f'{attr} is {v!r}')
            j = getattr(cls, 'jurisdiction', None)
            if not isinstance(j, FM.Jurisdiction):
                V(fname, 'missing-jurisdiction', f'jurisdiction is {j!r}')
            for inst in hx.instances_for(cls):
                res.evaluations += 1
                try:
                    fo = cls(instance=inst)
                except BaseException as e:  # noqa
                    V(fname, 'cannot-instantiate', f'instance {inst!r}: {type(e).__name__}: {e}')
                    continue
                res.count('instantiations')
                res.distinct.add(f'{year}|{fname}|{inst}')
                if getattr(fo, '_tax_year', year) != year:
                    V(fname, 'wrong-tax-year', f'instance reports tax year {fo._tax_year}')
                for what, objs in (('input', fo.inputs()), ('line', fo.fields())):
                    seen = set()
                    for o in objs:
                        b = o.base_name()
                        res.count(what + 's_inspected')
                        if b in seen:
                            V(fname, f'duplicate-{what}-name', f'{what} {b!r} declared twice')
                        seen.add(b)
                        if b != b.lower():
                            V(fname, f'uppercase-{what}-name', f'{what} {b!r} is not lower-case')
                        if '.' in b or not b:
                            V(fname, f'dotted-{what}-name', f'{what} {b!r}')
                        if o.name() != f'{fo.name()}.{b}':
                            V(fname, f'{what}-name-mismatch', f'{o.name()} vs {fo.name()}.{b}')
                exp_name = fname if inst is None else f'{fname}:{inst}'
                if fo.name() != exp_name:
                    V(fname, 'form-name-mismatch', f'name() = {fo.name()!r}, expected {exp_name!r}')
                # thresholds: every status-keyed table total and unambiguous
                th = captured.get(id(fo)) or {}
                if inst in (None, hx.instances_for(cls)[0]):
                    for tname, t in th.items():
                        if isinstance(t, dict):
                            keys = list(t)
                            flat = []
                            for k in keys:
                                flat.extend(k if isinstance(k, tuple) else [k])
                            if not all(isinstance(x, type(statuses[0])) for x in flat):
                                res.count('non_status_tables')
                                continue
                            for stt in statuses:
                                res.evaluations += 1
                                res.count('threshold_lookups')
                                res.distinct.add(f'{year}|{fname}|{tname}|{stt.name}')
                                matches = [k for k in keys if (stt in k if isinstance(k, tuple) else k == stt)]
                                if len(matches) != 1:
                                    V(fname, 'status-lookup-not-unique', f'threshold {tname!r} has {len(matches)} entries for {stt.name}', {'table': tname, 'status': stt.name})
                                try:
                                    got = fo.threshold(tname, stt)
                                except BaseException as e:  # noqa
                                    V(fname, 'status-lookup-fails', f'threshold({tname!r}, {stt.name}) raises {type(e).__name__}: {e}', {'table': tname, 'status': stt.name})
                                    continue
                                if len(matches) == 1 and got != t[matches[0]]:
                                    V(fname, 'status-lookup-wrong-entry', f'threshold({tname!r}, {stt.name}) = {got!r}, table says {t[matches[0]]!r}')
                        else:
                            res.evaluations += 1
                            res.count('threshold_lookups')
                            try:
                                if fo.threshold(tname) != t:
                                    V(fname, 'threshold-lookup-wrong', f'threshold({tname!r})')
                            except BaseException as e:  # noqa
                                V(fname, 'threshold-lookup-fails', f'threshold({tname!r}) raises {type(e).__name__}: {e}')
                # list-form-inputs parses back to exactly the inputs
                res.evaluations += 1
                r = cli.run_cli(['list-form-inputs', exp_name, '--year', str(year)])
                res.count('cli_list_form_inputs')
                if r.exc is not None or r.code != 0:
                    V(fname, 'list-form-inputs-fails', f'list-form-inputs {exp_name}: exit {r.code} {type(r.exc).__name__ if r.exc else ""} {r.exc or r.stdout[:120]}')
                else:
                    text = re.sub(r'(?m)^#([^\s#][^=\n]* =)', r'\1', r.stdout)
                    cp = configparser.ConfigParser()
                    try:
                        cp.read_string(text)
                        secs = cp.sections()
                        keys = set(cp[secs[0]].keys()) if secs else set()
                        exp = {i.base_name() for i in fo.inputs()}
                        if secs != [exp_name]:
                            V(fname, 'list-form-inputs-sections', f'template has sections {secs}, expected [{exp_name}]')
                        elif keys != exp:
                            V(fname, 'list-form-inputs-keys', f'template keys differ from the inputs: missing {sorted(exp - keys)[:4]} extra {sorted(keys - exp)[:4]}')
                    except configparser.Error as e:
                        V(fname, 'list-form-inputs-unparseable', f'{type(e).__name__}: {str(e)[:150]}')
                    if len(res.samples) < 2:
                        res.sample({'cmd': f'list-form-inputs {exp_name} --year {year}', 'stdout_head': r.stdout[:300]})
    finally:
        FM.Form.__init__ = orig_init
    # list-forms
    for args, pred in [([], lambda c: True),
                       (['--jurisdiction', 'US'], lambda c: c.jurisdiction.name == 'US'),
                       (['--jurisdiction', 'nc'], lambda c: c.jurisdiction.name == 'NC'),
                       (['--contains', 'schedule'], lambda c: 'schedule' in c.form_name.lower() or 'schedule' in f'{c.description}: {c.long_description}'.lower()),
                       (['--contains', '1099'], lambda c: '1099' in c.form_name.lower() or '1099' in f'{c.description}: {c.long_description}'.lower()),
                       (['--contains', 'zzzz'], lambda c: False)]:
        res.evaluations += 1
        res.count('cli_list_forms')
        r = cli.run_cli(['list-forms', '--year', str(year)] + args)
        if r.exc is not None or r.code != 0:
            V('*', 'list-forms-fails', f'list-forms {args}: {r.exc}')
            continue
        rows = [l for l in r.stdout.splitlines() if ' | ' in l][2:]
        got = [l.split(' | ')[0].strip() for l in rows]
        exp = [c.form_name for c in cat if pred(c)]
        if got != exp:
            V('*', 'list-forms-rows', f'list-forms {args} printed {got[:5]}..., expected {exp[:5]}...')
        for l in rows:
            nm = l.split(' | ')[0].strip()
            c = [x for x in cat if x.form_name == nm]
            if c and (c[0].jurisdiction.name not in l or str(c[0].description) not in l):
                V(nm, 'list-forms-row-content', f'row {l!r} lacks jurisdiction/description')
    return res


def finalize(res, tier):
    if res.counters.get('instantiations', 0) < 75 or res.counters.get('threshold_lookups', 0) < 50:
        res.inconclusive.append('fewer instantiations / lookups than the catalogue has')
    return {'exhaustive': True}
