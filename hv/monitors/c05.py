"""C05 - the result depends only on year, requested forms and input values.
Canonical outcomes are compared across seeded replacements of
habutax.solver.sort_keys (attempt order), permutations of the requested forms,
file layout, file/prompt splits and line renamings."""
import copy
import itertools

from hv.common import Result, rng_for, h
from hv import progwork, progen, drive, oracles

ID = 'C05'
LEVEL = 'exploration'
RULE = ('one evaluation = one solve of a variant; a case = one program/return with all its variants; non-trivial = the '
        'variants produced at least two distinct attempt sequences (hash of the ATTEMPT_BEGIN order); distinct = distinct '
        'attempt-sequence hashes observed overall')
ASSUMPTIONS = [
    'every order the solver can take is an order of its sort key: replacing habutax.solver.sort_keys permutes queue, met-dependent and prompt order',
    'with a refusing user the set of questions asked legitimately depends on order: only solved / not-solved is compared there',
]


HASHSEEDS = [0, 1, 424242]


def plan(tier, seed):
    sp = progwork.shards(tier, 1500, 50000, exhaustive=(tier == 'thorough'))
    from hv import realwork
    # the same fixed cases in processes with different PYTHONHASHSEED; compared in finalize()
    sp += [{'kind': 'hashseed', 'hashseed': hs, 'n': 4 if tier == 'quick' else 40} for hs in HASHSEEDS]
    sp += [{'kind': 'cli', 'year': y, 'n': 3 if tier == 'quick' else 60} for y in (2021, 2022, 2023)]
    # the same fixed returns solved one after another in one process, in two different sequences (two processes)
    sp += [{'kind': 'history', 'order': o, 'n': 2 if tier == 'quick' else 12} for o in (0, 1, 2)]
    return sp + realwork.shards('C05', tier)


def run_cli(spec, tier, seed):
    """The command line takes the forms as repeated --form options and the inputs as
    a file: the same file and the same *set* of forms, given in every order (and with
    the file's sections written in another order), must print the same verdict and the
    same diagnostics and write the same solution."""
    import os
    import re
    import tempfile
    import configparser
    import shutil
    from hv import scen, cli, hx
    from hv.monitors.c20 import write_ini
    res = Result()
    year = spec['year']
    rng = rng_for('C05cli', seed, spec)
    tmp = tempfile.mkdtemp(prefix='hv_c05_')

    def report(stdout):
        verdict = 'solved' if 'Successfully solved!' in stdout else 'failed' if 'Failed to solve' in stdout else 'none'
        return verdict, frozenset(l.strip() for l in stdout.splitlines() if l.strip() and not l.startswith('Solver results written to'))

    def solution(path):
        if not os.path.exists(path):
            return None
        cp = configparser.ConfigParser()
        cp.read(path)
        return {sec: dict(cp.items(sec, raw=True)) for sec in cp.sections()}
    try:
        for k in range(spec['n']):
            fam = rng.choice(['F8', 'F2', 'F5', 'F9', 'F8'])
            p = scen.Persona(year, fam, f'c05cli:{seed}:{k}')
            p.nc = True
            scen.solve_persona(p)
            forms = list(p.forms())
            if len(forms) < 2:
                forms = forms + ['1040_s1'] if '1040_s1' not in forms else forms
            ans = dict(p.answers)
            keys = sorted(ans)
            variants = [('full', ans)]
            for f in forms:                      # everything one of the requested forms needs of its own is missing
                own = [q for q in keys if q.split('.')[0] == f]
                if own:
                    variants.append((f'missing:{f}', {q: v for q, v in ans.items() if q not in own[:6]}))
            drop = rng.sample(keys, min(len(keys), 3))
            variants.append(('missing:random', {q: v for q, v in ans.items() if q not in drop}))
            for name, amap in variants:
                outcomes = []
                orders = [forms, list(reversed(forms))]
                if len(forms) > 2:
                    orders.append(forms[1:] + forms[:1])
                for oi, order in enumerate(orders):
                    path = os.path.join(tmp, f'in{oi}.ini')
                    items = sorted(amap.items()) if oi == 0 else sorted(amap.items(), reverse=True)
                    write_ini(path, dict(items))
                    sol = os.path.join(tmp, f'sol{oi}.ini')
                    if os.path.exists(sol):
                        os.remove(sol)
                    args = ['solve', path, '--year', str(year), '--solution', sol]
                    for f in order:
                        args += ['--form', f]
                    r = cli.run_cli(args)
                    res.evaluations += 1
                    res.count('cli_runs')
                    v, lines = report(r.stdout)
                    res.count('cli_' + ('abort' if r.exc is not None else v))
                    outcomes.append((order, type(r.exc).__name__ if r.exc is not None else None, v, lines, solution(sol)))
                base = outcomes[0]
                res.distinct.add(f'cli|{year}|{fam}|{name.split(":")[0]}|{base[2]}|{len(forms)}')
                for o in outcomes[1:]:
                    res.count('cli_order_comparisons')
                    rp = {'engine': 'cli', 'persona': p.describe(), 'variant': name, 'orders': [base[0], o[0]], 'shard': spec}
                    if o[1] != base[1]:
                        res.violation('C05|cli|form-order|abort', f'{year} {fam} [{name}]: --form {" ".join(base[0])} ended with {base[1]}, --form {" ".join(o[0])} with {o[1]}', rp)
                    elif o[2] != base[2]:
                        res.violation('C05|cli|form-order|verdict', f'{year} {fam} [{name}]: --form {" ".join(base[0])} printed {base[2]!r}, --form {" ".join(o[0])} printed {o[2]!r}', rp)
                    elif o[3] != base[3]:
                        d = sorted(o[3] ^ base[3])[:3]
                        res.violation('C05|cli|form-order|diagnostics', f'{year} {fam} [{name}]: the printed diagnostics depend on the order of the --form options, e.g. {d}', rp)
                    elif o[4] != base[4]:
                        res.violation('C05|cli|form-order|solution', f'{year} {fam} [{name}]: the written solution depends on the order of the --form options: {_mapdiff(base[4] or {}, o[4] or {})}', rp)
        # the same values read from the file or typed at the real prompt, including text a prompt might be tempted to tidy up
        from hv.monitors import c20
        lookup = c20.InputLookup(year)
        AWKWARD = ['"Teacher"', "'quoted'", '(in brackets)', 'two  blanks', '"a" and "b"', '[x]', 'UPPER lower', '#1 Plumber', 'semi;colon']
        for k in range(spec['n']):
            fam = rng.choice(['F0', 'F2', 'F8'])
            p = scen.Persona(year, fam, f'c05typed:{seed}:{k}')
            scen.solve_persona(p)
            ans = dict(p.answers)
            texts = [q for q in sorted(ans) if isinstance(lookup.get(q), hx.inputs.StringInput) and not isinstance(lookup.get(q), (hx.inputs.RegexInput, hx.inputs.SSNInput))
                     and q.split('.')[1] in ('occupation', 'spouse_occupation', 'box_c', 'payer', 'dependent_0_relationship', 'city', 'home_address')]
            if not texts:
                continue
            for j, q in enumerate(texts):
                ans[q] = AWKWARD[(j + k) % len(AWKWARD)]
            typed = texts + [q for q in sorted(ans) if q not in texts][:: 7]
            pf, pt = os.path.join(tmp, 'file.ini'), os.path.join(tmp, 'typed.ini')
            sf, st_ = os.path.join(tmp, 'sf.ini'), os.path.join(tmp, 'st.ini')
            for x in (sf, st_):
                if os.path.exists(x):
                    os.remove(x)
            write_ini(pf, ans)
            write_ini(pt, {q: v for q, v in ans.items() if q not in typed})
            args = ['solve', pf, '--year', str(year), '--solution', sf]
            for f in p.forms():
                args += ['--form', f]
            r1 = cli.run_cli(args)
            q2 = scen.Persona(year, fam, p.key, overrides=ans)

            def a(name, q2=q2):
                return q2.answer(lookup.get(name))
            a.lookup = lookup
            r2, given = c20.session(year, p.forms(), pt, a, extra_args=['--solution', st_])
            res.evaluations += 2
            res.count('cli_file_vs_typed')
            if r1.exc is not None or r2.exc is not None:
                if type(r1.exc) is not type(r2.exc):
                    res.violation('C05|cli|file-vs-typed|abort', f'{year} {fam}: all in the file ended with {type(r1.exc).__name__}, {len(typed)} of them typed ended with {type(r2.exc).__name__}',
                                  {'engine': 'cli', 'persona': p.describe(), 'typed': typed[:8], 'shard': spec})
                continue
            m1, m2 = solution(sf), solution(st_)
            if m1 != m2:
                res.violation('C05|cli|file-vs-typed|solution', f'{year} {fam}: the same values give a different solution when {len(typed)} of them are typed at the prompt instead of read from the file: {_mapdiff(m1 or {}, m2 or {})}',
                              {'engine': 'cli', 'persona': p.describe(), 'typed': typed[:8], 'shard': spec})
    finally:
        shutil.rmtree(tmp, ignore_errors=True)
    return res


def run_hashseed(spec, tier, seed):
    import sys
    from hv import scen, realwork
    res = Result()
    table = {}
    for label, prog in progen.corpus():
        out, tv, _ = progwork.traced_run(prog)
        res.evaluations += 1
        table['corpus:' + label] = h([canon(out, tv), attempt_seq(tv)], 16)
    rng = rng_for('C05hs', seed)
    for k in range(spec['n'] * 20):
        prog = progen.random_program(rng)
        out, tv, _ = progwork.traced_run(prog)
        res.evaluations += 1
        table[f'random:{k}'] = h([canon(out, tv), attempt_seq(tv)], 16)
    for year in (2021, 2022, 2023):
        for fam in ('F0', 'F2', 'F8', 'F5', 'F10', 'F3'):
            for p in scen.personas(seed, year, fam, spec['n']):
                out, tv, _ = realwork.traced(p)
                res.evaluations += 1
                table[f'real:{year}:{fam}:{p.key}'] = h([canon(out, tv), attempt_seq(tv)], 16)
        # a Schedule 1 with several "other income" items described in words (a mortgage interest refund and a described item)
        for k in range(spec['n']):
            p = scen.plain_persona(year, 'S', 70000.0 + k, key=f'hs-oi:{k}', n_1098=1, f1098=[{'box_1': 5000.0, 'box_6': 0.0, 'box_4': 120.0 + k, 'box_5': 0.0}], s1_income=True)
            p.need_other_income = True
            out, tv, _ = realwork.traced(p)
            res.evaluations += 1
            table[f'real:{year}:other-income:{k}'] = h([canon(out, tv), attempt_seq(tv)], 16)
    res.extra['hashseed_tables'] = {str(spec['hashseed']): table}
    res.count('hashseed_cases', len(table))
    res.sample({'PYTHONHASHSEED': spec['hashseed'], 'flags_hash_randomization': sys.flags.hash_randomization, 'cases': len(table)})
    return res


def run_history(spec, tier, seed):
    """What was solved earlier in the same process is not an input: returns that differ
    only in filing status but reach the *same* taxable income, the same wages, the same
    dividends ... are solved in sequence 0 (as listed), 1 (reversed) and 2 (interleaved by
    year); every return's outcome must be the same in all three processes."""
    from hv import scen, realwork
    from hv import statutory as st
    res = Result()
    cases = []
    rng = rng_for('C05hist', seed)
    for year in (2021, 2022, 2023):
        for j in range(spec['n']):
            taxable = round(rng.choice([rng.uniform(3000, 99000), rng.uniform(100000, 400000)]), 0)
            for status in ('S', 'MFJ', 'MFS', 'HOH', 'QSS'):
                wages = taxable + st.amount('standard_deduction', year, status)
                cases.append((f'{year}|{status}|taxable{taxable:.0f}', ('plain', year, status, wages, 1 if status in ('HOH', 'QSS') else 0)))
        for fam in ('F2', 'F8', 'F5'):
            for p in scen.personas(seed, year, fam, spec['n']):
                cases.append((f'{year}|{fam}|{p.key}', ('persona', year, fam, p.key)))
    if spec['order'] == 1:
        cases.reverse()
    elif spec['order'] == 2:
        cases = cases[::3] + cases[1::3] + cases[2::3]
    table = {}
    for label, c in cases:
        if c[0] == 'plain':
            p = scen.plain_persona(c[1], c[2], c[3], key='hist', deps_odc=c[4])
        else:
            p = scen.Persona(c[1], c[2], c[3])
        out, tv, _ = realwork.traced(p)
        res.evaluations += 1
        table[label] = h(canon(out, tv), 16)
        res.count('history_' + drive.verdict_class(out).split(':')[0])
    res.extra['history_tables'] = {str(spec['order']): table}
    res.count('history_cases', len(table))
    return res


def canon(out, tv, unmap=None):
    um = unmap or (lambda k: k)
    vc = drive.verdict_class(out)
    if out.exc is not None:
        return ('abort',)
    vals = {um(k): (type(v[-1]).__name__, repr(v[-1])) for k, v in tv.stored.items()}
    sol = drive.solution_map(out)
    return (vc, tuple(sorted(vals.items())),
            tuple(sorted(um(x) for x in set(out.unimplemented))),
            tuple(sorted((k, tuple(sorted(um(x) for x in set(v)))) for k, v in out.unmet_inputs.items() if v)),
            tuple(sorted((um(k), tuple(sorted(um(x) for x in set(v)))) for k, v in out.unmet_fields.items() if v)),
            tuple(sorted(um(f'{s}.{k}') for s, kv in sol.items() for k in kv)))


def attempt_seq(tv):
    return h([e[1] for e in tv.events if e[0] == 'ATTEMPT_BEGIN'], 12)


def refused(tv):
    return any(p[3] is False for p in tv.prompts)


def rename_lines(prog, rng):
    """Rename the lines of every form by a random bijection into a pool of names
    with a different natural order; returns (new program, unmap function)."""
    pool = ['1', '2', '3', '4', '5a', '5b', '6', '7z', '12', '13', '21', 'a', 'b_2', 'zz', '30', '100']
    p2 = copy.deepcopy(prog)
    maps = {}
    for fs in p2['forms']:
        if fs.get('kind') == 'inputform':
            continue
        names = [l['name'] for l in fs['lines']]
        new = rng.sample(pool, len(names))
        maps[fs['name']] = dict(zip(names, new))

    def ren_key(key, cur):
        if '.' in key:
            f, n = key.split('.', 1)
        else:
            f, n = cur, key
        base = f.split(':')[0]
        if base in maps and n in maps[base]:
            n2 = maps[base][n]
            return f'{f}.{n2}' if '.' in key else n2
        return key

    def walk(node, cur):
        if isinstance(node, list):
            if node and node[0] == 'ln':
                return ['ln', ren_key(node[1], cur)]
            return [walk(x, cur) for x in node]
        return node
    for fs in p2['forms']:
        if fs.get('kind') == 'inputform':
            continue
        for l in fs['lines']:
            l['body'] = walk(l['body'], fs['name'])
            l['name'] = maps[fs['name']][l['name']]
    p2['field_names'] = [ren_key(k, None) for k in prog.get('field_names', [])]
    inv = {}
    for f, m in maps.items():
        inv[f] = {v: k for k, v in m.items()}

    def unmap(key):
        if '.' not in key:
            return key
        f, n = key.split('.', 1)
        base = f.split(':')[0]
        return f'{f}.{inv.get(base, {}).get(n, n)}'
    return p2, unmap


def run_shard(spec, tier, seed):
    if spec['kind'] == 'hashseed':
        return run_hashseed(spec, tier, seed)
    if spec['kind'] == 'cli':
        return run_cli(spec, tier, seed)
    if spec['kind'] == 'history':
        return run_history(spec, tier, seed)
    if spec['kind'] == 'real':
        from hv import realwork
        return realwork.run_shard('C05', spec, tier, seed)
    res = Result()
    rng = rng_for('C05', seed, spec)
    K = 3 if tier == 'quick' else 5
    for label, prog in progwork.programs(spec, seed):
        base_out, base_tv, _ = progwork.traced_run(prog)
        res.evaluations += 1
        base = canon(base_out, base_tv)
        seqs = {attempt_seq(base_tv)}
        variants = []
        for k in range(K):
            variants.append((f'schedule:{k + 1}', prog, {'schedule_seed': k + 1}, None))
        if len(prog['request']) > 1:
            for perm in list(itertools.permutations(range(len(prog['request']))))[1:3]:
                variants.append((f'form-order:{perm}', prog, {'form_order': list(perm)}, None))
        # everything in the file / everything typed at the prompt
        allin = dict(prog['file'])
        allin.update(prog['answers'])
        if prog.get('prompt', True) and prog['answers']:
            variants.append(('all-in-file', dict(prog, file=allin, answers={}), {}, None))
            variants.append(('all-at-prompt', dict(prog, file={}, answers=allin), {'schedule_seed': 7}, None))
            items = list(allin.items())
            rng.shuffle(items)
            half = len(items) // 2
            variants.append(('split', dict(prog, file=dict(items[:half]), answers=dict(items[half:])), {}, None))
        if prog['file']:
            items = list(prog['file'].items())
            rng.shuffle(items)
            variants.append(('file-order', dict(prog, file=dict(items)), {}, None))
        if spec['part'] != 'small':
            p2, unmap = rename_lines(prog, rng)
            variants.append(('rename-lines', p2, {}, unmap))
        for vname, p, kw, unmap in variants:
            out, tv, _ = progwork.traced_run(p, **kw)
            res.evaluations += 1
            res.count('variants_compared')
            seqs.add(attempt_seq(tv))
            c = canon(out, tv, unmap)
            if refused(tv) or refused(base_tv):
                same = (c[0] == 'solved') == (base[0] == 'solved')
                res.count('compared_verdict_only')
            else:
                same = c == base
            if not same:
                diff = _diff(base, c)
                res.violation(f'C05|prog|{vname.split(":")[0]}', f'{label} variant {vname}: outcome differs from the natural order: {diff}',
                              progwork.prog_replay(label, prog, kw.get('schedule_seed'), {'variant': vname, 'variant_program': p, 'kw': kw, 'shard': spec}))
        if len(seqs) > 1:
            res.count('cases_with_distinct_orders')
        for s in seqs:
            res.distinct.add(s)
        if res.evaluations < 12 and len(seqs) > 1:
            res.sample({'label': label, 'variants': [v[0] for v in variants], 'distinct_attempt_sequences': len(seqs), 'verdict': base[0]})
    return res


def _mapdiff(a, b):
    out = []
    for sec in sorted(set(a) | set(b)):
        x, y = a.get(sec, {}), b.get(sec, {})
        for k in sorted(set(x) | set(y)):
            if x.get(k) != y.get(k):
                out.append(f'{sec}.{k}: {x.get(k)!r} vs {y.get(k)!r}')
    return out[:3]


def _diff(a, b):
    if a[0] != b[0]:
        return f'verdict {a[0]} vs {b[0]}'
    names = ['verdict', 'values', 'unimplemented', 'unmet inputs', 'unmet lines', 'solution lines']
    for n, x, y in zip(names, a, b):
        if x != y:
            sx, sy = set(x) if isinstance(x, tuple) else {x}, set(y) if isinstance(y, tuple) else {y}
            return f'{n}: only natural {sorted(sx - sy)[:3]} only variant {sorted(sy - sx)[:3]}'
    return 'unknown'


def finalize(res, tier):
    tables = res.extra.get('hashseed_tables', {})
    if len(tables) >= 2:
        base_hs = sorted(tables)[0]
        for hs, t in tables.items():
            for label, hv_ in t.items():
                res.count('hashseed_comparisons')
                if tables[base_hs].get(label) != hv_:
                    res.violation('C05|hashseed', f'{label}: outcome or attempt order differs between PYTHONHASHSEED={base_hs} and {hs}', {'label': label, 'hashseeds': [base_hs, hs]})
    else:
        res.inconclusive.append('hash-seed variants did not run')
    ht = res.extra.get('history_tables', {})
    if len(ht) >= 3:
        for o, t in ht.items():
            for label, hv_ in t.items():
                res.count('history_comparisons')
                if ht['0'].get(label) != hv_:
                    res.violation(f'C05|history|{label.split("|")[0]}', f'{label}: the outcome of this return depends on which returns were solved before it in the same process (sequence 0 vs {o})',
                                  {'engine': 'history', 'label': label, 'orders': ['0', o]})
    else:
        res.inconclusive.append('process-history sequences did not all run')
    c = res.counters
    if c.get('cli_order_comparisons', 0) < 20 or c.get('cli_failed', 0) < 5 or c.get('cli_solved', 0) < 5:
        res.inconclusive.append(f'CLI form-order layer: too few comparisons / verdict kinds ({c.get("cli_order_comparisons", 0)}, failed {c.get("cli_failed", 0)}, solved {c.get("cli_solved", 0)})')
    if res.counters.get('cases_with_distinct_orders', 0) < 100:
        res.inconclusive.append('fewer than 100 cases in which the variants produced distinct attempt orders')
    return {'distinct_attempt_sequences': len(res.distinct)}
