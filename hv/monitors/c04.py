"""C04 - a solution is exactly the demand closure of the requested forms."""
from hv.common import Result
from hv import progwork, oracles, progen, drive

ID = 'C04'
LEVEL = 'exploration'
RULE = ('one evaluation = one traced solve; closure checked from READ_LINE events and against the reference interpreter; '
        'non-trivial = a successful solve that pulled in a form or an optional line by reference; distinct = execution signatures')
ASSUMPTIONS = ['READ_LINE events inside attempts are all the references evaluated lines make']


def plan(tier, seed):
    sp = progwork.shards(tier, 2500, 150000)
    from hv import realwork
    sp += [{'kind': 'cli', 'year': y, 'n': 4 if tier == 'quick' else 60} for y in (2021, 2022, 2023)]
    sp += [{'kind': 'alone', 'year': y, 'filers': 1 if tier == 'quick' else 6} for y in (2021, 2022, 2023)]
    return sp + realwork.shards('C04', tier)


def run_alone(spec, tier, seed):
    """Every shipped form (every allowed copy) requested on its own, and in pairs with another schedule, without Form 1040 in
    the request: whatever ends up in the solution is the demand closure of that request - a form nobody asked for and no
    evaluated line referred to is not there, and neither is a solution when the request cannot be served."""
    from hv import hx, scen, realwork, drive
    res = Result()
    year = spec['year']
    names = []
    for cls in hx.catalogue(year):
        for inst in hx.instances_for(cls)[:2]:
            names.append(cls(instance=inst).name() if inst else cls().name())
    statuses = ['S', 'MFJ', 'HOH', 'MFS', 'QSS', 'MFJ']
    for j, name in enumerate(names):
        for f in range(spec['filers']):
            st_ = statuses[(j + f) % len(statuses)]
            p = scen.plain_persona(year, st_, 30000.0 + 45000.0 * ((j + f) % 5), key=f'alone:{f}', deps_ctc=(j + f) % 3, nc=name.startswith('nc_'))
            req = [name] if f % 2 == 0 else [name, names[(j * 7 + f) % len(names)]]
            out, tv, t = realwork.traced(p, forms=req)
            res.evaluations += 1
            res.count('closure_checks')
            res.count('closure_checks_forms_alone')
            res.count('alone_' + drive.verdict_class(out).split(':')[0])
            res.distinct.add(f'alone|{year}|{"+".join(x.split(":")[0] for x in req)}|{drive.verdict_class(out).split(":")[0]}')
            for s_, m in oracles.c04(out, tv):
                res.violation(f'C04|real|{year}|{s_}|{realwork.key_line(m)}', f'{year} request {req} ({st_}): {m}', {'engine': 'scen', 'persona': p.describe(), 'request': req, 'shard': spec})
    return res


def run_cli(spec, tier, seed):
    """The same closure at the command line: `habutax solve --form X ... --solution f`
    must write exactly the sections and lines that the Solver API produces for the
    same request on the same file (requests that do and do not lead to Form 1040)."""
    import os
    import tempfile
    from hv import scen, cli, hx, drive
    from hv.monitors.c20 import write_ini, parse
    res = Result()
    year = spec['year']
    tmp = tempfile.mkdtemp(prefix='hv_c04_')
    try:
        for k in range(spec['n']):
            fam = ['F2', 'F8', 'F4', 'F5', 'F0', 'F9'][k % 6]
            p = scen.Persona(year, fam, f'c04cli:{seed}:{k}')
            out0 = scen.solve_persona(p)
            if out0.exc is not None:
                continue
            path = os.path.join(tmp, 'in.ini')
            write_ini(path, p.answers)
            requests = [p.forms(), list(reversed(p.forms()))]
            for f in sorted(out0.solver.forms):
                base = f.split(':')[0]
                if base in ('w-2', '1099-int', '1099-div', '1098', '1099-r', '1099-g') and [f] not in requests:
                    requests.append([f])
            for req in requests[:6]:
                sol = os.path.join(tmp, 'sol.ini')
                if os.path.exists(sol):
                    os.remove(sol)
                args = ['solve', path, '--year', str(year), '--solution', sol]
                for f in req:
                    args += ['--form', f]
                r = cli.run_cli(args)
                api = drive.run_solver(hx.catalogue(year), path, req, use_prompt=False)
                res.evaluations += 1
                res.count('cli_closure_checks')
                rp = {'engine': 'cli', 'persona': p.describe(), 'request': req, 'shard': spec}
                if (r.exc is not None) != (api.exc is not None):
                    res.violation('C04|cli|abort-disagrees', f'{year} --form {req}: CLI {type(r.exc).__name__ if r.exc else "finished"}, API {type(api.exc).__name__ if api.exc else "finished"}', rp)
                    continue
                if r.exc is not None or not os.path.exists(sol):
                    continue
                got = {k_ for k_ in parse(sol) if not k_.startswith('habutax.')}
                exp = {f'{s_}.{k_}' for s_, kv in drive.solution_map(api).items() for k_ in kv}
                res.distinct.add(f'cli|{year}|{"+".join(x.split(":")[0] for x in req)}')
                if got != exp:
                    extra = sorted(got - exp)[:4]
                    missing = sorted(exp - got)[:4]
                    res.violation('C04|cli|solution-ne-api-closure', f'{year} `solve --form {" --form ".join(req)}` wrote a solution that differs from the closure of that request: '
                                  f'extra {extra} ({len(got - exp)} lines, forms {sorted({x.split(".")[0] for x in got - exp})[:4]}), missing {missing}', rp)
                if len(res.samples) < 1:
                    res.sample({'cmd': ' '.join(args[2:]), 'sections_written': sorted({x.split('.')[0] for x in got})})
            # the same closure when inputs that many lines wait for are typed at the prompt instead
            from hv.monitors import c20
            heavy = [q for q in ('1040.number_dependents', '1040.filing_status', '1040.number_w-2', '1040.number_1099-int', '1040.number_1099-div', '1040.itemize') if q in p.answers]
            if heavy and out0.ret is True:
                lookup = c20.InputLookup(year)
                path2 = os.path.join(tmp, 'in2.ini')
                write_ini(path2, {q: v for q, v in p.answers.items() if q not in heavy})
                sol = os.path.join(tmp, 'sol2.ini')
                if os.path.exists(sol):
                    os.remove(sol)
                q2 = scen.Persona(year, fam, p.key, overrides=dict(p.answers))

                def a(name):
                    return q2.answer(lookup.get(name))
                a.lookup = lookup
                r, given = c20.session(year, p.forms(), path2, a, extra_args=['--solution', sol])
                res.evaluations += 1
                res.count('cli_closure_checks_prompted')
                if r.exc is None and os.path.exists(sol):
                    got = {k_ for k_ in parse(sol) if not k_.startswith('habutax.')}
                    exp = {f'{s_}.{k_}' for s_, kv in drive.solution_map(out0).items() for k_ in kv}
                    if got != exp:
                        res.violation('C04|cli|prompted-solution-ne-closure', f'{year} {fam}: with {heavy} typed at the prompt the written solution differs from the closure of the same inputs: '
                                      f'missing {sorted(exp - got)[:4]} ({len(exp - got)}), extra {sorted(got - exp)[:4]}', {'engine': 'cli', 'persona': p.describe(), 'typed': heavy, 'shard': spec})
    finally:
        import shutil
        shutil.rmtree(tmp, ignore_errors=True)
    return res


def run_shard(spec, tier, seed):
    if spec['kind'] == 'cli':
        return run_cli(spec, tier, seed)
    if spec['kind'] == 'alone':
        return run_alone(spec, tier, seed)
    if spec['kind'] == 'real':
        from hv import realwork
        return realwork.run_shard('C04', spec, tier, seed)
    res = Result()
    for label, prog in progwork.programs(spec, seed):
        for ss in ([None, 3] if spec['part'] != 'small' else [None]):
            out, tv, t = progwork.traced_run(prog, schedule_seed=ss)
            res.evaluations += 1
            ref = progen.reference(prog, out.final_inputs)
            viol = oracles.c04(out, tv) + oracles.c04_vs_reference(out, ref)
            res.count('closure_checks')
            if out.exc is None and out.ret is True:
                res.count('solved_runs')
                pulled = set(k.split('.')[0] for k in tv.read_keys) - set(prog['request'])
                if pulled or len(tv.read_keys) > 0:
                    res.distinct.add(progwork.shape_sig(prog, out, tv))
                if pulled:
                    res.count('solved_runs_pulling_forms')
            inputonly = [f for f in tv.forms_new if f[0] not in [k.split(':')[0] for k in (out.solver.forms if out.exc is None else [])]]
            if inputonly:
                res.count('runs_with_input_only_loads')
            for suffix, msg in viol:
                res.violation(f'C04|prog|{suffix}', f'{label} schedule={ss}: {msg}', progwork.prog_replay(label, prog, ss, {'shard': spec}))
            if res.evaluations == 1:
                res.sample({'label': label, 'request': prog['request'], 'sections': sorted(drive.solution_map(out)) if out.exc is None else None,
                            'read_keys': sorted(tv.read_keys)[:10]})
    return res


def finalize(res, tier):
    if res.counters.get('cli_closure_checks', 0) < 20:
        res.inconclusive.append('fewer than 20 command-line closure checks')
    if res.counters.get('solved_runs_pulling_forms', 0) < 30:
        res.inconclusive.append('fewer than 30 solved runs pulled a form in by reference')
    return {}
