"""C04 - a solution is exactly the demand closure of the requested forms."""
from hv.common import Result
from hv import progwork, oracles, progen, drive

ID = 'C04'
LEVEL = 'exploration'
RULE = ('one evaluation = one traced solve; closure checked from READ_LINE events and against the reference interpreter; '
        'non-trivial = a successful solve that pulled in a form or an optional line by reference; distinct = execution signatures')
ASSUMPTIONS = ['READ_LINE events inside attempts are all the references evaluated lines make']


def plan(tier, seed):
    sp = progwork.shards(tier, 2500, 150000)
    from hv import realwork
    return sp + realwork.shards('C04', tier)


def run_shard(spec, tier, seed):
    if spec['kind'] == 'real':
        from hv import realwork
        return realwork.run_shard('C04', spec, tier, seed)
    res = Result()
    for label, prog in progwork.programs(spec, seed):
        for ss in ([None, 3] if spec['part'] != 'small' else [None]):
            out, tv, t = progwork.traced_run(prog, schedule_seed=ss)
            res.evaluations += 1
            ref = progen.reference(prog, out.final_inputs)
            viol = oracles.c04(out, tv) + oracles.c04_vs_reference(out, ref)
            res.count('closure_checks')
            if out.exc is None and out.ret is True:
                res.count('solved_runs')
                pulled = set(k.split('.')[0] for k in tv.read_keys) - set(prog['request'])
                if pulled or len(tv.read_keys) > 0:
                    res.distinct.add(progwork.shape_sig(prog, out, tv))
                if pulled:
                    res.count('solved_runs_pulling_forms')
            inputonly = [f for f in tv.forms_new if f[0] not in [k.split(':')[0] for k in (out.solver.forms if out.exc is None else [])]]
            if inputonly:
                res.count('runs_with_input_only_loads')
            for suffix, msg in viol:
                res.violation(f'C04|prog|{suffix}', f'{label} schedule={ss}: {msg}', progwork.prog_replay(label, prog, ss, {'shard': spec}))
            if res.evaluations == 1:
                res.sample({'label': label, 'request': prog['request'], 'sections': sorted(drive.solution_map(out)) if out.exc is None else None,
                            'read_keys': sorted(tv.read_keys)[:10]})
    return res


def finalize(res, tier):
    if res.counters.get('solved_runs_pulling_forms', 0) < 30:
        res.inconclusive.append('fewer than 30 solved runs pulled a form in by reference')
    return {}
