"""C06 - termination, bounded work, no lost waiter.
(i) solver level: attempt/prompt counters with a logical ceiling, end-state
conservation; (ii) tracker level: generated histories of add_unmet / meet /
met_dependents on the real DependencyTracker against a sequential model."""
import itertools

from hv.common import Result, rng_for, h
from hv import progwork, oracles, progen, drive, trace

ID = 'C06'
LEVEL = 'exploration'
RULE = ('evaluations = traced solves (cyclic / unknown-name / refusing-prompt programs) + tracker histories; non-trivial = '
        'a solve where some line waited, or a history with at least one meet followed by a drain; distinct = distinct '
        'solve signatures + distinct history strings; histories are bounded-exhaustive in the thorough tier')
ASSUMPTIONS = [
    'a per-line bound of 2 + distinct waits (documented retry after loading an input specification, double scheduling via field_names)',
    'logical ceiling = 4000 line evaluations per generated program (small programs need fewer than 300); wall-clock expiry is inconclusive, not a verdict',
]

CEILING = 4000


def plan(tier, seed):
    sp = progwork.shards(tier, 2500, 150000)
    if tier == 'quick':
        sp += [{'kind': 'hist', 'mode': 'random', 'n': 4000, 'slice': k} for k in range(4)]
        sp += [{'kind': 'hist', 'mode': 'exhaustive', 'maxlen': 5}]
        sp += [{'kind': 'refuse', 'n': 150, 'slice': k} for k in range(4)]
    else:
        sp += [{'kind': 'hist', 'mode': 'random', 'n': 150000, 'slice': k} for k in range(16)]
        sp += [{'kind': 'hist', 'mode': 'exhaustive', 'maxlen': 7, 'first': f} for f in range(len(OPS))]
        sp += [{'kind': 'refuse', 'n': 2500, 'slice': k} for k in range(16)]
    from hv import realwork
    sp += [{'kind': 'cli-goes-away', 'year': y, 'n': 2 if tier == 'quick' else 12} for y in (2021, 2022, 2023)]
    return sp + realwork.shards('C06', tier)


def run_cli_goes_away(spec, tier, seed, res):
    """Termination at the command line when the user stops answering: input ends
    (EOF) or Ctrl-C at the k-th question, for k spread over the session.  The
    bound is logical: the prompt loop may call input() at most 60 times for one
    question."""
    import os
    import tempfile
    from hv import scen
    from hv.monitors import c20
    year = spec['year']
    rng = rng_for('C06cli', seed, spec)
    lookup = c20.InputLookup(year)
    for k in range(spec['n']):
        fam = rng.choice(['F0', 'F1', 'F2', 'F8', 'F3'])
        p = scen.Persona(year, fam, f'c06cli:{seed}:{k}')
        tmp = tempfile.mkdtemp(prefix='hv_c06_')
        try:
            def a(name, p=p):
                return p.answer(lookup.get(name))
            a.lookup = lookup
            r0, given0 = c20.session(year, p.forms(), os.path.join(tmp, 'full.ini'), a)
            n = r0.n_prompts
            full = dict(given0)
            for kind in ('eof', 'sigint'):
                for kk in sorted({1, 2, 3, max(1, n // 2), n} | {rng.randint(1, max(1, n)) for _ in range(6)}):
                    q = scen.Persona(year, fam, p.key, overrides=full)

                    def a2(name, q=q):
                        return q.answer(lookup.get(name))
                    a2.lookup = lookup
                    path = os.path.join(tmp, 'p.ini')
                    c20.write_ini(path, {})
                    r, given = c20.session(year, q.forms(), path, a2, fault=(kind, kk))
                    res.evaluations += 1
                    res.count('cli_user_goes_away_sessions')
                    res.distinct.add(f'cli-away|{year}|{kind}|{kk}')
                    if isinstance(r.exc, c20.RunawayPrompt):
                        res.violation(f'C06|cli|prompt-loop-does-not-end|{kind}', f'{year} {fam}: user gone ({kind}) at question {kk}: {r.exc}',
                                      {'engine': 'cli', 'persona': q.describe(), 'fault': [kind, kk], 'shard': spec})
        finally:
            import shutil
            shutil.rmtree(tmp, ignore_errors=True)


# ------------------------------------------------------------------ tracker histories
DEPS = ['d1', 'd2']
WAITERS = ['w1', 'w2', 'w3']
OPS = [('add', d, w) for d in DEPS for w in WAITERS] + [('meet', d) for d in DEPS] + [('drain', j) for j in (1, 2, 99)]


class Model(object):
    """Sequential model of the dependency bookkeeping.  pending: dependency ->
    list of waiter tokens.  met: dependency -> 'yes' (met and certainly not
    drained yet) | 'maybe' (met, a partial drain may or may not have consumed
    it - the tracker's contract leaves that open).  A complete drain releases
    every waiter of every met dependency and clears `met`; a registration made
    after that stays pending until the dependency is met again (the tracker's
    documented contract)."""

    def __init__(self):
        self.pending = {}
        self.met = {}

    def add(self, d, w):
        self.pending.setdefault(d, []).append(w)

    def meet(self, d):
        self.met[d] = 'yes'

    def must_release(self):
        return [(d, w) for d, st in self.met.items() if st == 'yes' for w in self.pending.get(d, [])]

    def release(self, w):
        for d in self.met:
            lst = self.pending.get(d, [])
            if w in lst:
                lst.remove(w)
                return d
        return None

    def end_drain(self, complete):
        if complete:
            self.met = {}
        else:
            for d in list(self.met):
                if not self.pending.get(d):
                    self.met[d] = 'maybe'

    def has_unmet(self):
        """True / False / None (undetermined after a partial drain)."""
        r = False
        for d, lst in self.pending.items():
            if not lst:
                continue
            st = self.met.get(d)
            if st is None:
                return True
            if st == 'maybe':
                r = None
        return r


def run_history(hist, res):
    """Drive the real DependencyTracker; unique waiter tokens per registration."""
    from hv import hx
    tr = hx.solver.DependencyTracker()
    m = Model()
    n = 0
    log = []

    def drain(j):
        got = []
        gen = tr.met_dependents()
        complete = False
        for _ in range(j):
            try:
                w = next(gen)
            except StopIteration:
                complete = True
                break
            got.append(w)
            if m.release(w) is None:
                return got, ('released-not-pending-on-met', f'drain yielded {w} which is not waiting on any met dependency')
        if not complete:
            gen.close()
        log.append(f'drain[{j}]->{got}{"." if complete else "..."}')
        if complete and m.must_release():
            return got, ('waiter-not-released', f'after a complete drain {m.must_release()} are still waiting on met dependencies')
        m.end_drain(complete)
        return got, None

    for step, op in enumerate(hist):
        if op[0] == 'add':
            n += 1
            tok = f'{op[2]}#{n}'
            tr.add_unmet(op[1], tok)
            m.add(op[1], tok)
            log.append(f'add({op[1]},{tok})')
        elif op[0] == 'meet':
            tr.meet(op[1])
            m.meet(op[1])
            log.append(f'meet({op[1]})')
        else:
            got, err = drain(op[1])
            if err:
                return (err[0], err[1] + f'; history {log}')
        res.count('model_steps')
        try:
            hm, hu = tr.has_met(), tr.has_unmet()
        except Exception as e:
            return ('observer-raises', f'{type(e).__name__}: {e}; history {log}')
        if m.must_release() and not hm:
            return ('has_met-false-with-releasable', f'has_met() is False although {m.must_release()} can be released; history {log}')
        if not m.met and hm:
            return ('has_met-true-with-nothing-met', f'has_met() is True although nothing is met and undrained; history {log}')
        exp = m.has_unmet()
        if exp is not None and hu != exp:
            return ('has_unmet-disagrees', f'has_unmet()={hu} model={exp}; history {log}')
    got, err = drain(10 ** 6)
    if err:
        return (err[0], err[1] + f'; history {log}')
    if tr.has_met():
        return ('has_met-true-after-drain', f'has_met() True after a complete drain; history {log}')
    return None


def hist_str(hist):
    return ';'.join(','.join(str(x) for x in op) for op in hist)


def run_hist_shard(spec, seed, res):
    if spec['mode'] == 'random':
        rng = rng_for('C06hist', seed, spec['slice'])
        gen = ([rng.choice(OPS) for _ in range(rng.randint(1, 40))] for _ in range(spec['n']))
    else:
        def allh():
            firsts = [OPS[spec['first']]] if 'first' in spec else OPS
            for L in range(1, spec['maxlen'] + 1):
                small = [o for o in OPS if not (o[0] == 'add' and o[2] == 'w3')] if L > 5 else OPS
                for f in firsts:
                    for rest in itertools.product(small, repeat=L - 1):
                        yield [f] + list(rest)
        gen = allh()
        res.extra['histories_exhaustive_maxlen'] = spec['maxlen']
    for hist in gen:
        res.evaluations += 1
        res.count('histories')
        v = run_history(hist, res)
        ops = [o[0] for o in hist]
        if 'meet' in ops and 'drain' in ops[ops.index('meet'):]:
            if res.counters.get('histories', 0) % 50 == 0 or len(hist) <= 4:
                res.distinct.add('H' + h(hist_str(hist), 10))
            res.count('histories_nontrivial')
        if v:
            res.violation(f'C06|tracker|{v[0]}', v[1], {'engine': 'tracker-history', 'history': hist, 'shard': spec})
        if res.evaluations == 1:
            res.sample({'history': hist_str(hist)})


# ------------------------------------------------------------------ refusing prompts at every k
def run_refuse_shard(spec, seed, res):
    rng = rng_for('C06refuse', seed, spec['slice'])
    done = 0
    while done < spec['n']:
        prog = progen.random_program(rng)
        prog['prompt'] = True
        # everything answered, nothing in the file: many prompts
        for q, t in list(prog['file'].items()):
            prog['answers'][q] = t
        prog['file'] = {}
        out0, tv0, _ = progwork.traced_run(prog, ceiling=CEILING)
        nprompts = len([p for p in tv0.prompts if p[3]])
        done += 1
        for k in range(0, nprompts + 1):
            answered = [p[0] for p in tv0.prompts if p[3]][:k]
            p2 = dict(prog, answers={q: prog['answers'][q] for q in answered})
            check_solve(f'refuse-from-{k}', p2, None, res, spec)


def check_solve(label, prog, ss, res, spec):
    try:
        out, tv, t = progwork.traced_run(prog, schedule_seed=ss, ceiling=CEILING)
    except trace.WorkCeiling as e:
        res.violation('C06|prog|work-ceiling', f'{label}: {e}', progwork.prog_replay(label, prog, ss, {'shard': spec}))
        return
    res.evaluations += 1
    res.count('solves')
    res.count('ev_ATTEMPT', t.n_attempts)
    res.count('ev_PROMPT', len(tv.prompts))
    res.count('ev_DEP', sum(1 for e in tv.events if e[0] == 'DEP'))
    if isinstance(out.exc, trace.WorkCeiling):
        res.violation('C06|prog|work-ceiling', f'{label}: {out.exc}', progwork.prog_replay(label, prog, ss, {'shard': spec}))
        return
    if progwork.nontrivial(tv):
        res.distinct.add(progwork.shape_sig(prog, out, tv))
    if any(p[3] is False for p in tv.prompts):
        res.count('solves_with_refusal')
    for suffix, msg in oracles.c06(out, tv):
        key = f'C06|prog|{suffix}'
        if suffix == 'line-evaluated-too-often' and isinstance(out.exc, RecursionError):
            key = 'C06|prog|unbounded-retry-unknown-input'
        res.violation(key, f'{label} schedule={ss}: {msg}', progwork.prog_replay(label, prog, ss, {'shard': spec}))
    if res.evaluations == 1:
        res.sample({'label': label, 'attempts_per_line': {k: len(v) for k, v in list(tv.attempts.items())[:10]}, 'prompts': len(tv.prompts)})


def run_shard(spec, tier, seed):
    res = Result()
    if spec['kind'] == 'real':
        from hv import realwork
        return realwork.run_shard('C06', spec, tier, seed)
    if spec['kind'] == 'cli-goes-away':
        run_cli_goes_away(spec, tier, seed, res)
        return res
    if spec['kind'] == 'hist':
        run_hist_shard(spec, seed, res)
        return res
    if spec['kind'] == 'refuse':
        run_refuse_shard(spec, seed, res)
        return res
    n = 0
    for label, prog in progwork.programs(spec, seed):
        for ss in ([None, 5] if spec['part'] != 'small' else [None]):
            check_solve(label, prog, ss, res, spec)
        n += 1
        if spec['part'] == 'random' and n % 4 == 0 and prog['answers']:
            # a prompt callback that hands back text the input does not accept (as "supplied"): whatever the solver
            # does about it, it ends within the bounds and asks nobody twice
            import copy
            bad = copy.deepcopy(prog)
            for q in sorted(bad['answers'])[:: 2]:
                bad['answers'][q] = 'not a valid answer'
            res.count('solves_with_invalid_prompt_answers')
            check_solve(label + ':invalid-answers', bad, None, res, spec)
    return res


def finalize(res, tier):
    c = res.counters
    if c.get('histories_nontrivial', 0) < 1000:
        res.inconclusive.append('fewer than 1000 non-trivial tracker histories')
    if c.get('solves_with_refusal', 0) < 100:
        res.inconclusive.append('fewer than 100 solves with a refusing prompt')
    if c.get('cli_user_goes_away_sessions', 0) < 20:
        res.inconclusive.append('fewer than 20 command-line sessions with a user who goes away')
    if c.get('ev_DEP', 0) < 1000:
        res.inconclusive.append('fewer than 1000 dependency-tracker events in solves')
    return {'histories_exhaustive_maxlen': res.extra.get('histories_exhaustive_maxlen')}
