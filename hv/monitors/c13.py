"""C13 - prompting is demand-exact; written-back answers make the run repeatable.
Online checker of PROMPT events against the READ_INPUT(missing) events that
precede them, plus three-run histories solve -> write back -> solve -> prune."""
import copy

from hv.common import Result
from hv import progwork, progen, drive, oracles

ID = 'C13'
LEVEL = 'exploration'
RULE = ('one evaluation = one solve; a history = run 1 (answers typed), run 2 on the written-back inputs with a recording '
        'refusing prompt, run 3 with every never-read input deleted; non-trivial = run 1 asked at least one question; '
        'distinct = execution signatures of run 1')
ASSUMPTIONS = [
    'answers are generated inside ConfigParser\'s safe alphabet (no %, no comment-prefixed continuation lines): INI artefacts belong to C14',
    'the harness prompt callback sees exactly the (input, needed_by) arguments the solver passes',
]


def plan(tier, seed):
    sp = progwork.shards(tier, 1500, 30000, exhaustive=(tier == 'thorough'))
    from hv import realwork
    return sp + realwork.shards('C13', tier)


def run_shard(spec, tier, seed):
    if spec['kind'] == 'real':
        from hv import realwork
        return realwork.run_shard('C13', spec, tier, seed)
    res = Result()
    for label, prog in progwork.programs(spec, seed):
        for ss in ([None, 2] if spec['part'] != 'small' else [None]):
            history(label, prog, ss, res, spec)
    return res


def history(label, prog, ss, res, spec):
    rp = progwork.prog_replay(label, prog, ss, {'shard': spec})
    out1, tv1, _ = progwork.traced_run(prog, schedule_seed=ss)
    res.evaluations += 1
    res.count('prompts_checked', len(tv1.prompts))
    res.count('ev_READ_INPUT_missing', sum(1 for r in tv1.input_reads if r[1] == 'missing'))
    for suffix, msg in oracles.c13(out1, tv1):
        res.violation(f'C13|prog|{suffix}', f'{label} schedule={ss}: {msg}', rp)
    asked = [p for p in tv1.prompts]
    if asked:
        res.distinct.add(progwork.shape_sig(prog, out1, tv1))
    # exact ask-set against the reference (no refusal happened)
    if out1.exc is None and prog.get('prompt', True) and not any(p[3] is False for p in asked):
        ref = progen.reference(prog, out1.final_inputs)
        if ref['abort'] is None:
            expected = ref['inputs_read'] - set(out1.initial_inputs)
            got = {p[0] for p in asked}
            res.count('ask_sets_compared')
            if got != expected:
                res.violation('C13|prog|ask-set-ne-reference', f'{label}: asked {sorted(got)} but the inputs read and absent are {sorted(expected)}', rp)
    if out1.exc is not None or out1.ret is not True:
        return
    # run 2: on the written-back inputs, nothing may be asked, same solution
    p2 = dict(prog, file=dict(out1.final_inputs), answers={})
    out2, tv2, _ = progwork.traced_run(p2, schedule_seed=ss)
    res.evaluations += 1
    res.count('histories')
    if tv2.prompts:
        res.violation('C13|prog|second-run-asks', f'{label}: second run on the written-back inputs asked {[p[0] for p in tv2.prompts][:4]}', rp)
    if out2.exc is not None or out2.ret is not True or drive.solution_map(out2) != drive.solution_map(out1):
        res.violation('C13|prog|second-run-differs', f'{label}: second run gave {drive.verdict_class(out2)} / a different solution', rp)
    # run 3: delete every input that no line ever read
    read = {r[0] for r in tv1.input_reads} | {r[0] for r in tv2.input_reads}
    pruned = {k: v for k, v in out1.final_inputs.items() if k in read}
    if len(pruned) < len(out1.final_inputs):
        res.count('histories_with_pruned_inputs')
        p3 = dict(prog, file=pruned, answers={})
        out3, tv3, _ = progwork.traced_run(p3, schedule_seed=ss)
        res.evaluations += 1
        if tv3.prompts or out3.exc is not None or out3.ret is not True or drive.solution_map(out3) != drive.solution_map(out1):
            res.violation('C13|prog|never-read-input-required', f'{label}: after deleting never-read inputs {sorted(set(out1.final_inputs) - set(pruned))[:4]} the outcome changed '
                          f'({drive.verdict_class(out3)}, prompts {[p[0] for p in tv3.prompts][:3]})', rp)
    if res.counters.get('histories', 0) == 1:
        res.sample({'label': label, 'asked_in_run1': [p[0] for p in asked], 'written_back': out1.final_inputs, 'run2_prompts': len(tv2.prompts)})


def finalize(res, tier):
    c = res.counters
    if c.get('prompts_checked', 0) < 500:
        res.inconclusive.append('fewer than 500 prompt events checked')
    if c.get('histories', 0) < 100:
        res.inconclusive.append('fewer than 100 three-run histories')
    return {}
