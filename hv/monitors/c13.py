"""C13 - prompting is demand-exact; written-back answers make the run repeatable.
Online checker of PROMPT events against the READ_INPUT(missing) events that
precede them, plus three-run histories solve -> write back -> solve -> prune."""
import copy

from hv.common import Result
from hv import progwork, progen, drive, oracles

ID = 'C13'
LEVEL = 'exploration'
RULE = ('one evaluation = one solve; a history = run 1 (answers typed), run 2 on the written-back inputs with a recording '
        'refusing prompt, run 3 with every never-read input deleted; non-trivial = run 1 asked at least one question; '
        'distinct = execution signatures of run 1')
ASSUMPTIONS = [
    'answers are generated inside ConfigParser\'s safe alphabet (no %, no comment-prefixed continuation lines): INI artefacts belong to C14',
    'the harness prompt callback sees exactly the (input, needed_by) arguments the solver passes',
]


def plan(tier, seed):
    sp = progwork.shards(tier, 1500, 100000, exhaustive=(tier == 'thorough'))
    from hv import realwork
    n = 4 if tier == 'quick' else 40
    for y in (2021, 2022, 2023):
        sp.append({'kind': 'cli', 'year': y, 'families': ['F8', 'F0', 'F2', 'F3', 'F1', 'F4'], 'n': n})
        sp.append({'kind': 'cli', 'year': y, 'families': ['F8', 'F10', 'F9', 'F5', 'F8', 'F6'], 'n': n})
    return sp + realwork.shards('C13', tier)


def _multi(scen, year, key):
    """A filer with two copies of every kind of statement (an interview can be interrupted in the middle of any of them)."""
    p = scen.plain_persona(year, 'MFJ', [52000.0, 31000.0], key=key, n_int=2, ints=[{'box_1': 300.0 + 10 * j, 'box_3': 0.0, 'box_4': 0.0, 'box_6': 0.0, 'box_8': 0.0, 'box_2': 0.0} for j in range(2)],
                           n_div=2, divs=[{'box_1a': 200.0 + j, 'box_1b': 50.0, 'box_2a': 0.0, 'box_4': 0.0, 'box_5': 0.0, 'box_7': 0.0, 'box_16_1': 0.0} for j in range(2)],
                           n_1099g=2, f1099g=[{'box_2': 120.0 + j, 'box_1': 0.0, 'box_4': 0.0, 'box_11_1': 0.0, 'box_10a_1': ''} for j in range(2)],
                           n_1098=2, f1098=[{'box_1': 2500.0 + j, 'box_6': 0.0, 'box_4': 0.0, 'box_5': 0.0} for j in range(2)])
    return p


def run_cli_history(spec, tier, seed):
    """The same history through the real CLI: run 1 `solve --prompt-missing
    --writeback-input --solution s1` from an (almost) empty file, run 2 on the
    written file with a prompt that records and refuses.  Also checks the text
    of every prompt: the lines quoted as needing the input are exactly the
    waiting lines the solver handed to the prompt function."""
    import os
    import re
    import tempfile
    from hv import hx, scen, cli
    from hv.monitors import c20
    res = Result()
    year = spec['year']
    lookup = c20.InputLookup(year)
    for k in range(spec['n']):
        fam = spec['families'][k % len(spec['families'])]
        multi = (k % 4 == 3)           # every fourth history: the filer with two copies of everything, resumed from a partly filled file
        p = scen.Persona(year, fam, f'c13cli:{seed}:{k}') if not multi else _multi(scen, year, f'c13cli:{seed}:{k}')
        tmp = tempfile.mkdtemp(prefix='hv_c13_')
        try:
            path = os.path.join(tmp, 'in.ini')
            s1, s2 = os.path.join(tmp, 's1.ini'), os.path.join(tmp, 's2.ini')
            if k % 2 == 1:
                # a nearly complete file: every section is there already, only a few values are missing
                p0 = scen.Persona(year, fam, f'c13cli:{seed}:{k}') if not multi else _multi(scen, year, f'c13cli:{seed}:{k}')
                scen.solve_persona(p0)
                full = dict(p0.answers)
                rng_ = __import__('random').Random(f'{seed}:{k}:{year}')
                cand = [q for q in sorted(full) if sum(1 for q2 in full if q2.split('.')[0] == q.split('.')[0]) > 2]
                drop = set(rng_.sample(cand, min(len(cand), rng_.randint(1, 4))))
                # an interview interrupted in the middle of a statement: of every kind of statement with several copies, the
                # FIRST copy lacks its later boxes while the other copies are complete
                secs_ = sorted({q.split('.')[0] for q in full})
                for base_ in sorted({s_.split(':')[0] for s_ in secs_ if ':' in s_}):
                    if f'{base_}:0' in secs_ and f'{base_}:1' in secs_:
                        keys0 = sorted(q for q in full if q.split('.')[0] == f'{base_}:0')
                        drop |= set(keys0[len(keys0) // 2:][:3])
                c20.write_ini(path, {q: v for q, v in full.items() if q not in drop})
                # option names are case-insensitive in the input file: a user may well write Filing_Status or BOX_1
                kept = [q for q in sorted(full) if q not in drop]
                recase = set(rng_.sample(kept, min(len(kept), 6)))
                lines_ = []
                sec_ = None
                for line in open(path).read().splitlines():
                    if line.startswith('['):
                        sec_ = line[1:-1]
                    elif ' = ' in line or line.endswith(' ='):
                        opt = line.split(' =', 1)[0]
                        if f'{sec_}.{opt}' in recase:
                            line = (opt.upper() if len(lines_) % 2 else opt.capitalize()) + line[len(opt):]
                        if f'{sec_}.{opt}' in ('1040.home_address', 'w-2:0.box_c') and line.split(' =', 1)[1].strip():
                            # a value that runs over several lines (indented continuation lines, as the INI syntax has it)
                            line = line + '\n    Building B, 2nd floor\n    c/o: the caretaker = nobody'
                            res.count('cli_histories_with_multi_line_value')
                    lines_.append(line)
                with open(path, 'w') as fh:
                    fh.write('\n'.join(lines_) + '\n')
                supplied_lower = {q.lower() for q in kept}
                p = scen.Persona(year, fam if not multi else 'F0', f'c13cli:{seed}:{k}', overrides=full)
                if multi:
                    p.nc = False
                res.count('cli_histories_from_nearly_complete_file')
            current = {}
            orig_prompt = hx.habutax.prompt_input

            def spy(missing, needed_by):
                current['name'] = missing.name()
                current['expected'] = {((f.form().instance() or None), f.form().full_description(), f.base_name()) for f in needed_by}
                return orig_prompt(missing, needed_by)

            def on_prompt(text):
                if 'Additional input is needed by' not in text:
                    return
                res.count('cli_prompt_texts_checked')
                got = set()
                for line in text.split('\n'):
                    m = re.match(r"^ \* (?:Instance '([^']*)' of )?(.*), line '([^']*)'$", line)
                    if m:
                        got.add((m.group(1), m.group(2), m.group(3)))
                if current.get('expected') is not None and got != current['expected']:
                    wrong = sorted(got - current['expected'])[:2]
                    res.violation('C13|cli|prompt-quotes-wrong-lines', f'{year} {fam}: the prompt for {current.get("name")} quotes {wrong} which are not among the lines waiting for it '
                                  f'({sorted(current["expected"])[:2]}...)', {'engine': 'cli-history', 'persona': p.describe(), 'input': current.get('name'), 'shard': spec})
                if len(current.get('expected') or ()) > 1 and len({e[1] for e in current['expected']}) > 1:
                    res.count('cli_prompts_with_waiters_of_several_forms')
            hx.habutax.prompt_input = spy
            try:
                def a(name):
                    return p.answer(lookup.get(name))
                a.lookup = lookup
                r1, given = c20.session(year, p.forms(), path, a, extra_args=['--solution', s1], on_prompt=on_prompt)
            finally:
                hx.habutax.prompt_input = orig_prompt
            res.evaluations += 1
            res.count('cli_histories')
            if isinstance(r1.exc, c20.RunawayPrompt):
                res.violation('C13|cli|asks-the-same-input-again-and-again', f'{year} {fam}: {r1.exc}', {'engine': 'cli-history', 'persona': p.describe(), 'shard': spec})
                continue
            if k % 2 == 1:
                again = [nm for nm, t in given if nm and nm.lower() in supplied_lower]
                if again:
                    res.violation('C13|cli|asked-for-supplied-input', f'{year} {fam}: run 1 asked for {again[:3]} although the input file supplies them (option names written in another case)',
                                  {'engine': 'cli-history', 'persona': p.describe(), 'shard': spec})
            if r1.exc is None:
                try:
                    c20.parse(path)
                except Exception as e:  # noqa
                    res.violation('C13|cli|written-back-file-unreadable', f'{year} {fam}: the input file written back by run 1 cannot be read as an input file again: {type(e).__name__}: {str(e)[:120]}',
                                  {'engine': 'cli-history', 'persona': p.describe(), 'shard': spec})
                    continue
            if r1.exc is None and given:
                written = c20.parse(path)
                notw = [(nm, t) for nm, t in given if written.get(c20._lk(nm)) != t.strip()]
                if notw:
                    res.violation('C13|cli|answers-not-written-back', f'{year} {fam}: run 1 ended normally with --writeback-input but the file lacks the answers {notw[:3]}',
                                  {'engine': 'cli-history', 'persona': p.describe(), 'shard': spec})
            if r1.exc is not None or 'Successfully solved' not in r1.stdout:
                res.count('cli_run1_unsolved')
                continue
            asked = []

            def a2(name):
                asked.append(name)
                raise KeyboardInterrupt()
            a2.lookup = lookup
            r2, given2 = c20.session(year, p.forms(), path, a2, extra_args=['--solution', s2])
            res.evaluations += 1
            res.count('cli_histories_complete')
            res.distinct.add(f'cli|{year}|{fam}|{len(given)}')
            rp = {'engine': 'cli-history', 'persona': p.describe(), 'shard': spec}
            if asked:
                res.violation('C13|cli|second-run-asks', f'{year} {fam}: the re-run on the written-back file asked for {asked[:3]}', rp)
            elif not os.path.exists(s2):
                res.violation('C13|cli|second-run-differs', f'{year} {fam}: the re-run produced no solution ({r2.exc or r2.stdout[-150:]})', rp)
            else:
                # identical as a solution (sections, lines, values); the order in which
                # lines were solved, hence written, is not part of it
                m1, m2 = c20.parse(s1), c20.parse(s2)
                if m1 != m2:
                    d = sorted(k for k in set(m1) | set(m2) if m1.get(k) != m2.get(k))
                    res.violation('C13|cli|second-run-differs', f'{year} {fam}: the re-run on the written-back file gives a different solution: '
                                  f'{[(k, m1.get(k), m2.get(k)) for k in d[:3]]}', rp)
            if len(res.samples) < 1:
                res.sample({'persona': p.describe(), 'run1_prompts': len(given), 'run2_prompts': len(asked), 'solution_identical': True})
            # a request that does not lead to Form 1040 (a statement form alone): the command line asks exactly what the
            # solver asks for that request through the API - nothing about forms nobody requested
            from hv import realwork
            req = ['w-2:0']
            path3 = os.path.join(tmp, 'in3.ini')
            c20.write_ini(path3, {})
            p3 = scen.Persona(year, fam, f'c13cli:{seed}:{k}')

            def a3(name, p3=p3):
                return p3.answer(lookup.get(name))
            a3.lookup = lookup
            r3, given3 = c20.session(year, req, path3, a3)
            p4 = scen.Persona(year, fam, f'c13cli:{seed}:{k}')
            o4, tv4, _ = realwork.traced(p4, forms=req)
            res.evaluations += 1
            res.count('cli_requests_without_1040')
            asked_cli, asked_api = [nm for nm, t in given3], [x[0] for x in tv4.prompts]
            if sorted(asked_cli) != sorted(asked_api):
                extra = sorted(set(asked_cli) - set(asked_api))[:3]
                res.violation('C13|cli|asks-beyond-the-request', f'{year} `solve --form {req[0]} --prompt-missing` asked {len(asked_cli)} questions, the solver asks {len(asked_api)} for that request; '
                              f'only at the command line: {extra}', {'engine': 'cli-history', 'persona': p3.describe(), 'request': req, 'shard': spec})
        finally:
            import shutil
            shutil.rmtree(tmp, ignore_errors=True)
    return res


def run_shard(spec, tier, seed):
    if spec['kind'] == 'cli':
        return run_cli_history(spec, tier, seed)
    if spec['kind'] == 'real':
        from hv import realwork
        return realwork.run_shard('C13', spec, tier, seed)
    res = Result()
    for label, prog in progwork.programs(spec, seed):
        for ss in ([None, 2] if spec['part'] != 'small' else [None]):
            history(label, prog, ss, res, spec)
    return res


def history(label, prog, ss, res, spec):
    rp = progwork.prog_replay(label, prog, ss, {'shard': spec})
    out1, tv1, _ = progwork.traced_run(prog, schedule_seed=ss)
    res.evaluations += 1
    res.count('prompts_checked', len(tv1.prompts))
    res.count('ev_READ_INPUT_missing', sum(1 for r in tv1.input_reads if r[1] == 'missing'))
    for suffix, msg in oracles.c13(out1, tv1):
        res.violation(f'C13|prog|{suffix}', f'{label} schedule={ss}: {msg}', rp)
    asked = [p for p in tv1.prompts]
    if asked:
        res.distinct.add(progwork.shape_sig(prog, out1, tv1))
    # exact ask-set against the reference (no refusal happened)
    if out1.exc is None and prog.get('prompt', True) and not any(p[3] is False for p in asked):
        ref = progen.reference(prog, out1.final_inputs)
        if ref['abort'] is None:
            expected = ref['inputs_read'] - set(out1.initial_inputs)
            got = {p[0] for p in asked}
            res.count('ask_sets_compared')
            if got != expected:
                res.violation('C13|prog|ask-set-ne-reference', f'{label}: asked {sorted(got)} but the inputs read and absent are {sorted(expected)}', rp)
    if out1.exc is not None or out1.ret is not True:
        return
    # run 2: on the written-back inputs, nothing may be asked, same solution
    p2 = dict(prog, file=dict(out1.final_inputs), answers={})
    out2, tv2, _ = progwork.traced_run(p2, schedule_seed=ss)
    res.evaluations += 1
    res.count('histories')
    if tv2.prompts:
        res.violation('C13|prog|second-run-asks', f'{label}: second run on the written-back inputs asked {[p[0] for p in tv2.prompts][:4]}', rp)
    if out2.exc is not None or out2.ret is not True or drive.solution_map(out2) != drive.solution_map(out1):
        res.violation('C13|prog|second-run-differs', f'{label}: second run gave {drive.verdict_class(out2)} / a different solution', rp)
    # run 3: delete every input that no line ever read
    read = {r[0] for r in tv1.input_reads} | {r[0] for r in tv2.input_reads}
    pruned = {k: v for k, v in out1.final_inputs.items() if k in read}
    if len(pruned) < len(out1.final_inputs):
        res.count('histories_with_pruned_inputs')
        p3 = dict(prog, file=pruned, answers={})
        out3, tv3, _ = progwork.traced_run(p3, schedule_seed=ss)
        res.evaluations += 1
        if tv3.prompts or out3.exc is not None or out3.ret is not True or drive.solution_map(out3) != drive.solution_map(out1):
            res.violation('C13|prog|never-read-input-required', f'{label}: after deleting never-read inputs {sorted(set(out1.final_inputs) - set(pruned))[:4]} the outcome changed '
                          f'({drive.verdict_class(out3)}, prompts {[p[0] for p in tv3.prompts][:3]})', rp)
    if res.counters.get('histories', 0) == 1:
        res.sample({'label': label, 'asked_in_run1': [p[0] for p in asked], 'written_back': out1.final_inputs, 'run2_prompts': len(tv2.prompts)})


def finalize(res, tier):
    c = res.counters
    if c.get('prompts_checked', 0) < 500:
        res.inconclusive.append('fewer than 500 prompt events checked')
    if c.get('histories', 0) < 100:
        res.inconclusive.append('fewer than 100 three-run histories')
    if c.get('cli_histories_complete', 0) < 6:
        res.inconclusive.append(f'only {c.get("cli_histories_complete", 0)} complete CLI histories')
    if c.get('cli_prompts_with_waiters_of_several_forms', 0) < 1:
        res.inconclusive.append('no CLI prompt with waiting lines of several forms was observed')
    return {}
