"""C19 - the fill step transmits values faithfully and files exactly the right forms.
Observed at the pdftk boundary (stand-in pdftk first on PATH): the FDF handed
over is tokenised under the PDF string syntax and compared with the mapped text
of every field; the set and order of filled forms is compared with an
independent filing table; over-long / out-of-list values must stop the fill."""
import configparser
import os
import re
import tempfile

from hv.common import Result, rng_for

ID = 'C19'
LEVEL = 'exploration'
RULE = ('one evaluation = one `habutax fill-pdfs` run of one solved return (or one adversarial text injected through every string input); '
        'distinct_nontrivial = distinct (year, set of filed forms) + distinct adversarial text classes; deciding counters: fdf_entries_compared, cat_orders_checked')
ASSUMPTIONS = [
    'expected text of a box = the mapping applied to the typed value the filler loaded (the mapping itself is C18\'s subject)',
    'attachment sequence numbers are those printed in the IRS templates; NC forms follow D-400, Schedule S, Schedule A',
    'adversarial text is printable ASCII without % (ConfigParser interpolation is C14\'s finding class)',
]

ADVERSARIAL = [
    'O(Brien', 'Smith)', 'a(b)c', '((', '))', ')(', 'back\\slash', 'trail\\', '\\(', '\\)', 'quote"s', "O'Neil", '<<x>>', '>> /V (x)', '/T (y) /V (z)',
    'a\\\\b', '\\n', '\\101', '(((((((', 'Mc(Adams) & Sons \\ Co.', '[brackets]', '{braces}', '#hash', 'semi;colon', '*' * 500,
    'two  blanks', 'three   blanks   twice', 'tab\there', 'Apt  4  (Rear)', 'a \\  b', 'x' + ' ' * 10 + 'y', 'UPPER lower MiXeD', '007', '1e3', '-0',
]


def plan(tier, seed):
    n = 5 if tier == 'quick' else 250
    sp = []
    fams = ['F0', 'F1', 'F2', 'F3', 'F4', 'F5', 'F6', 'F8', 'F9', 'F10']
    for y in (2021, 2022, 2023):
        for g in (fams[:5], fams[5:]):
            sp.append({'kind': 'returns', 'year': y, 'families': g, 'n': n})
        sp.append({'kind': 'returns', 'year': y, 'directed': True, 'families': [], 'n': 1})
        sp.append({'kind': 'adversarial', 'year': y})
        sp.append({'kind': 'faults', 'year': y})
    return sp


def seqkey(s):
    m = re.match(r'(\d+)([A-Z]?)', s or '0')
    return (int(m.group(1)), m.group(2))


def expected_filing(year, values, sections, hx, pdfspec):
    """Independent filing table -> ordered list of (jurisdiction rank, seq key, form name)."""
    out = []
    fm = hx.form_map(year)
    for sec in sections:
        base = sec.split(':')[0]
        cls = fm.get(base)
        if cls is None:
            continue
        if issubclass(cls, hx.form.InputForm) or 'wkst' in base or base.endswith('need_6251'):
            continue
        if base == '1040_sa' and not values.get('1040.itemizing', False):
            continue
        if base == 'nc_d-400_sa':
            if 'nc_d-400_sa.deduction' not in values or not values.get('nc_d-400_sa.10', 0) > values.get('nc_d-400_sa.nc_standard_deduction', 0):
                continue
        fo = cls(instance=sec.split(':')[1] if ':' in sec else None)
        if base.startswith('nc_'):
            seq = {'nc_d-400': (0, ''), 'nc_d-400_ss': (1, ''), 'nc_d-400_sa': (2, '')}[base]
            jur = 1
        else:
            tpl = pdfspec.parse(fo.pdf_file()) if fo.pdf_file() and os.path.exists(fo.pdf_file()) else None
            seq = seqkey(tpl.sequence_no) if tpl is not None and tpl.sequence_no else (0, '')
            jur = 0
        out.append((jur, seq, sec))
    return out


def check_cli_fill(res, year, out, typed, label, rp, hx, pdfspec, pdfdrive):
    """The whole path the user takes: solution() + [habutax] written to a file,
    `habutax fill-pdfs` run on it; every text box must decode to the mapping
    applied to the value the SOLVE produced (not to whatever the fill step read)."""
    sol = out.solver.solution()
    sol['habutax'] = {'tax_year': year, 'version': hx.habutax.__version__}
    r = pdfdrive.fill_via_cli(sol)
    res.evaluations += 1
    res.count('cli_fills')
    PF = hx.pdf_fields
    if r.exc is not None:
        if not isinstance(r.exc, (PF.PDFValueTooLong, PF.PDFInvalidChoiceValue)):
            res.violation(f'C19|{year}|cli-fill-raises|{type(r.exc).__name__}', f'{label}: fill-pdfs raised {type(r.exc).__name__}: {str(r.exc)[:120]}', rp)
        return
    fm = hx.form_map(year)
    # the forms the command fills are the forms of the solved return that need filing (numbered / named copies included)
    exp = expected_filing(year, typed, [s_ for s_ in sol.sections() if s_ != 'habutax'], hx, pdfspec)
    got = [os.path.basename(c['argv'][c['argv'].index('output') + 1])[:-4] for c in r.calls if c['op'] == 'fill_form']
    res.count('cli_filing_sets_checked')
    if sorted(got) != sorted(e[2] for e in exp):
        extra = sorted(set(got) - {e[2] for e in exp})
        missing = sorted({e[2] for e in exp} - set(got))
        res.violation(f'C19|{year}|cli-filing-set|{"+".join(x.split(":")[0] for x in extra + missing)}',
                      f'{label}: `fill-pdfs` filled {sorted(got)}; the forms of the solved return that need filing are {sorted(e[2] for e in exp)} (extra {extra}, missing {missing})', rp)
    for c in r.calls:
        if c['op'] != 'fill_form':
            continue
        name = os.path.basename(c['argv'][c['argv'].index('output') + 1])[:-4]
        cls = fm.get(name.split(':')[0])
        if cls is None:
            continue
        fo = cls(instance=name.split(':')[1] if ':' in name else None)
        try:
            pairs = dict(pdfdrive.parse_fdf(c['fdf_bytes']))
        except pdfdrive.FDFSyntaxError as e:
            res.violation(f'C19|{year}|fdf-not-decodable', f'{label}: the form data for {name} does not parse under PDF string syntax: {e}', rp)
            continue
        fields = {f.name(): f for f in fo.fields()}
        for pf in fo.pdf_fields():
            q = pf.field_name if '.' in pf.field_name else f'{fo.name()}.{pf.field_name}'
            if q not in typed:
                # a line the solved return does not have: its box stays empty (nothing of an earlier fill, of another form or
                # of another return may show up there)
                got0 = pairs.get(pf.pdf_field_name)
                res.count('cli_fdf_absent_line_boxes_checked')
                if got0 is not None and got0.strip() not in ('', 'Off', '0'):
                    res.violation(f'C19|{year}|cli-box-filled-for-a-line-the-return-does-not-have', f'{label}: {name}: box {pf.pdf_field_name.split(".")[-1]} is mapped to {q}, which the solved return does not contain, yet carries {got0[:40]!r}', rp)
                continue
            fld = fields.get(q)
            if fld is None:
                ofo = fm.get(q.split('.')[0].split(':')[0])
                if ofo is None:
                    continue
                inst = q.split('.')[0].split(':')[1] if ':' in q.split('.')[0] else None
                fld = {f.name(): f for f in ofo(instance=inst).fields()}.get(q)
                if fld is None:
                    continue
            try:
                exp = pf.value(typed[q], fld)
            except BaseException:  # noqa
                continue
            res.count('cli_fdf_entries_compared')
            got = pairs.get(pf.pdf_field_name)
            if got is None:
                res.violation(f'C19|{year}|fdf-entry-missing', f'{label}: {name}: no form-data entry for {pf.pdf_field_name}', rp)
            elif got != exp and got.strip() != exp.strip():
                res.violation(f'C19|{year}|cli-fdf-text-differs-from-solved-value|{text_class(exp)}',
                              f'{label}: {name}: box {pf.pdf_field_name.split(".")[-1]} (line {q}) should carry {exp[:60]!r} - the text of the solved value - but the form data decodes to {got[:60]!r}', rp)


def check_fill(res, year, sol_cp, label, rp, hx, pdfspec, pdfdrive, expect_error=False):
    """sol_cp: the solution as the CLI wrote it (without [habutax])."""
    r = pdfdrive.fill(sol_cp, year)
    res.evaluations += 1
    res.count('fills')
    PF = hx.pdf_fields
    cats = [c for c in r.calls if c['op'] == 'cat']
    fills = [c for c in r.calls if c['op'] == 'fill_form']
    if isinstance(r.exc, (PF.PDFValueTooLong, PF.PDFInvalidChoiceValue)):
        res.count('fills_stopped_by_length_or_choice')
        if cats:
            res.violation(f'C19|{year}|cat-after-error', f'{label}: {type(r.exc).__name__} was raised but pdftk cat still ran', rp)
        return r
    if r.exc is not None:
        res.violation(f'C19|{year}|fill-raises|{type(r.exc).__name__}', f'{label}: fill raised {type(r.exc).__name__}: {str(r.exc)[:150]}', rp)
        return r
    values = r.values
    sections = [s for s in sol_cp.sections()]
    exp = expected_filing(year, values, sections, hx, pdfspec)
    got = [os.path.basename(c['argv'][c['argv'].index('output') + 1])[:-4] for c in fills]
    if sorted(got) != sorted(e[2] for e in exp):
        extra = sorted(set(got) - {e[2] for e in exp})
        missing = sorted({e[2] for e in exp} - set(got))
        twice = sorted({g for g in got if got.count(g) > 1})
        res.violation(f'C19|{year}|filing-set|{"+".join(x.split(":")[0] for x in extra + missing + twice)}',
                      f'{label}: filled forms differ from the forms that need filing: extra {extra} missing {missing} twice {twice}', rp)
    res.count('filing_sets_checked')
    res.distinct.add(f'{year}|' + ','.join(sorted(got)))
    if len(cats) != 1:
        res.violation(f'C19|{year}|cat-count', f'{label}: pdftk cat ran {len(cats)} times', rp)
    else:
        a = cats[0]['argv']
        order = [os.path.basename(x)[:-4] for x in a[:a.index('cat')]]
        rank = {e[2]: (e[0], e[1]) for e in exp}
        ranks = [rank.get(o) for o in order]
        res.count('cat_orders_checked')
        if None not in ranks and ranks != sorted(ranks):
            res.violation(f'C19|{year}|cat-order', f'{label}: forms are concatenated in the order {order}, not by jurisdiction and attachment sequence', rp)
        if sorted(order) != sorted(got):
            res.violation(f'C19|{year}|cat-set', f'{label}: cat joins {order} but {got} were filled', rp)
        if not all(cats[0].get('inputs_exist', [])):
            res.violation(f'C19|{year}|cat-missing-input', f'{label}: cat was given files that do not exist', rp)
    # FDF content
    fmap = {}
    for fo in r.filler.forms:
        fmap[fo.name()] = fo
    for c in fills:
        name = os.path.basename(c['argv'][c['argv'].index('output') + 1])[:-4]
        fo = fmap.get(name)
        if fo is None:
            continue
        if os.path.realpath(c['argv'][0]) != os.path.realpath(fo.pdf_file()) or f'ty{year}' not in c['argv'][0]:
            res.violation(f'C19|{year}|wrong-template', f'{label}: {name} filled into {c["argv"][0]}', rp)
        try:
            pairs = pdfdrive.parse_fdf(c['fdf_bytes'])
        except pdfdrive.FDFSyntaxError as e:
            res.violation(f'C19|{year}|fdf-not-decodable', f'{label}: the form data for {name} does not parse under PDF string syntax: {e}', rp)
            continue
        expd = {}
        fields = {f.name(): f for ff in r.filler.forms for f in ff.fields()}
        for pf in fo.pdf_fields():
            q = pf.field_name if '.' in pf.field_name else f'{fo.name()}.{pf.field_name}'
            if q in values:
                try:
                    expd[pf.pdf_field_name] = pf.value(values[q], fields[q])
                except BaseException:  # noqa
                    continue
            else:
                expd[pf.pdf_field_name] = ''
        gotd = {}
        for t, v in pairs:
            gotd.setdefault(t, []).append(v)
        for t, v in expd.items():
            res.count('fdf_entries_compared')
            g = gotd.get(t)
            if g is None:
                res.violation(f'C19|{year}|fdf-entry-missing', f'{label}: {name}: no form-data entry for {t}', rp)
            elif len(g) > 1 or g[0] != v:
                cls = text_class(v)
                res.violation(f'C19|{year}|fdf-text-differs|{cls}', f'{label}: {name}: field {t.split(".")[-1]} should carry {v[:60]!r} but the form data decodes to {g[0][:60]!r}', rp)
        extra = set(gotd) - set(expd)
        if extra:
            res.violation(f'C19|{year}|fdf-extra-entry', f'{label}: {name}: form data has entries for unmapped fields {sorted(extra)[:3]}', rp)
    return r


def text_class(v):
    c = []
    if '(' in v or ')' in v:
        c.append('parenthesis')
    if '\\' in v:
        c.append('backslash')
    return '+'.join(c) or 'plain'


def solution_as_cli(out, year):
    """what `habutax solve --solution` writes and `fill-pdfs` reads back"""
    import io
    sol = out.solver.solution()
    buf = io.StringIO()
    sol.write(buf)
    cp = configparser.ConfigParser()
    cp.read_string(buf.getvalue())
    return cp


def run_shard(spec, tier, seed):
    from hv import hx, scen, pdfspec, pdfdrive, realwork
    res = Result()
    year = spec['year']
    if spec['kind'] == 'returns':
        todo = list(scen.directed_personas(year, seed, 1)) if spec.get('directed') else [(fam, p) for fam in spec['families'] for p in scen.personas(seed, year, fam, spec['n'])]
        for fam, p in todo:
            if True:
                out = scen.solve_persona(p)
                if out.exc is not None or out.ret is not True:
                    res.count('unsolved_skipped')
                    continue
                try:
                    cp = solution_as_cli(out, year)
                except BaseException as e:  # noqa
                    res.count('solution_unwritable')
                    continue
                r = check_fill(res, year, cp, f'{year} {fam} {p.key}', realwork.replay_of(p, 'fill', spec), hx, pdfspec, pdfdrive)
                if res.counters.get('cli_fills', 0) < (3 if tier == 'quick' else 40):
                    typed = scen.typed_solution(out)      # the solved values, through solution() and each line's from_string
                    check_cli_fill(res, year, out, typed, f'{year} {fam} {p.key}', realwork.replay_of(p, 'cli-fill', spec), hx, pdfspec, pdfdrive)
                if len(res.samples) < 2 and r.exc is None:
                    res.sample({'persona': p.describe(), 'pdftk_calls': [c['argv'][-4:] if c['op'] == 'cat' else [os.path.basename(c['argv'][0]), 'fill_form'] for c in r.calls]})
        return res
    if spec['kind'] == 'adversarial':
        rng = rng_for('C19adv', seed, year)
        base = None
        k = 0
        while base is None and k < 40:
            p = scen.Persona(year, 'F8' if year != 2021 else 'F3', f'adv:{seed}:{k}')
            k += 1
            out = scen.solve_persona(p)
            if out.exc is None and out.ret is True:
                base = p
        if base is None:
            res.inconclusive.append(f'no solvable base persona for adversarial text in {year}')
            return res
        answers = dict(base.answers)
        I = hx.inputs
        lookup = __import__('hv.monitors.c20', fromlist=['InputLookup']).InputLookup(year)
        strnames = [n for n in answers if type(lookup.get(n)) is I.StringInput]
        for text in ADVERSARIAL:
            ov = dict(answers)
            for n in strnames:
                ov[n] = text
            q = scen.Persona(year, base.family, base.key, overrides=ov)
            out = scen.solve_persona(q)
            res.count('adversarial_texts')
            if out.exc is not None or out.ret is not True:
                res.count('adversarial_unsolved')
                continue
            try:
                cp = solution_as_cli(out, year)
            except BaseException as e:  # noqa
                res.count('solution_unwritable')
                continue
            res.distinct.add('adv|' + text_class(text) + '|' + str(len(text) > 100))
            check_fill(res, year, cp, f'{year} adversarial text {text[:20]!r}', {'engine': 'scen', 'persona': q.describe(), 'text': text, 'shard': spec}, hx, pdfspec, pdfdrive)
        res.sample({'adversarial_texts': ADVERSARIAL[:8], 'injected_through': strnames[:6]})
        return res
    if spec['kind'] == 'faults':
        # over-long value for a box with a limit; out-of-list choice; pdftk failing
        p = None
        for k in range(40):
            q = scen.Persona(year, 'F0', f'flt:{seed}:{k}')
            out = scen.solve_persona(q)
            if out.exc is None and out.ret is True:
                p = q
                break
        if p is None:
            res.inconclusive.append('no base')
            return res
        cp = solution_as_cli(out, year)
        cp2 = configparser.ConfigParser()
        cp2.read_dict({s: dict(cp.items(s, raw=True)) for s in cp.sections()})
        cp2.set('1040', 'you_ssn', '1234567890123')
        r = pdfdrive.fill(cp2, year)
        res.evaluations += 1
        res.count('overlong_cases')
        rp = {'engine': 'fault', 'what': 'overlong you_ssn', 'shard': spec}
        if not isinstance(r.exc, hx.pdf_fields.PDFValueTooLong):
            res.violation(f'C19|{year}|overlong-not-rejected', f'13 characters for the 9-character SSN box: fill ended with {type(r.exc).__name__ if r.exc else "success"}', rp)
        if any(c['op'] == 'cat' for c in r.calls):
            res.violation(f'C19|{year}|cat-after-error', 'cat ran although a value was too long', rp)
        for c in r.calls:
            if c['op'] == 'fill_form' and b'1234567890123' in c.get('fdf_bytes', b'') is False:
                pass
        for c in r.calls:
            if c['op'] == 'fill_form':
                for t, v in _safe_pairs(pdfdrive, c):
                    if t.endswith('f1_06[0]') and v and v != '1234567890123':
                        res.violation(f'C19|{year}|overlong-truncated', f'SSN box was written as {v!r}', rp)
        # too long by no more than its blanks and dashes ("Apt 12" for a 5-character box, "Van der Berg" for 10): still too long -
        # the text is not squeezed to fit.  Through the real fill of an N.C. return, and on every text mapping that carries a limit
        F_ = hx.fields
        PF = hx.pdf_fields
        for cls in hx.catalogue(year):
            for inst in hx.instances_for(cls)[:1]:
                try:
                    fo = cls(instance=inst) if inst else cls()
                except BaseException:  # noqa
                    continue
                flds = {f.base_name(): f for f in fo.fields()}
                for pf in (fo.pdf_fields() or []):
                    ml = getattr(pf, 'max_length', None)
                    fld = flds.get(getattr(pf, 'field_name', None))
                    if not isinstance(pf, PF.TextPDFField) or not ml or ml < 3 or not isinstance(fld, F_.StringField):
                        continue
                    for sep in (' ', '-', ' - '):
                        txt = 'a' * (ml - 2) + sep + 'bc'
                        res.evaluations += 1
                        res.count('overlong_by_separators_probes')
                        try:
                            got_ = pf.value(txt, fld)
                        except PF.PDFValueTooLong:
                            continue
                        except BaseException:  # noqa
                            continue
                        res.violation(f'C19|{year}|overlong-squeezed|{cls.form_name}', f'{cls.form_name} line {pf.field_name} -> {pf.pdf_field_name} (limit {ml}): the {len(txt)}-character text {txt!r} is written as {got_!r} instead of stopping the fill',
                                      {'engine': 'fault', 'what': 'overlong by separators', 'form': cls.form_name, 'line': pf.field_name, 'text': txt, 'shard': spec})
                        break
        # a text outside a choice list stops the fill whatever it looks like: other letter case, padding, near misses of a listed choice
        for cls in hx.catalogue(year):
            for inst in hx.instances_for(cls)[:1]:
                try:
                    fo = cls(instance=inst) if inst else cls()
                except BaseException:  # noqa
                    continue
                flds = {f.base_name(): f for f in fo.fields()}
                for pf in (fo.pdf_fields() or []):
                    if not isinstance(pf, PF.ChoicePDFField):
                        continue
                    fld = flds.get(getattr(pf, 'field_name', None))
                    choices = [c for c in getattr(pf, '_choices', []) if isinstance(c, str)]
                    if not isinstance(fld, F_.StringField) or not choices:
                        continue
                    probes = []
                    for c in choices[:60]:
                        probes += [c.lower(), c.capitalize(), c.swapcase(), ' ' + c, c + ' ', c + c, c[:-1], c + '.']
                    probes += ['XX', 'N C', '??', 'zz']
                    for txt in dict.fromkeys(probes):
                        if txt in choices:
                            continue
                        res.evaluations += 1
                        res.count('out_of_list_choice_probes')
                        try:
                            got_ = pf.value(txt, fld)
                        except PF.PDFInvalidChoiceValue:
                            continue
                        except BaseException:  # noqa
                            continue
                        res.violation(f'C19|{year}|choice-not-in-list-written|{cls.form_name}', f'{cls.form_name} line {pf.field_name} -> choice box {pf.pdf_field_name}: the text {txt!r} is not one of its choices but is written as {got_!r} instead of stopping the fill',
                                      {'engine': 'fault', 'what': 'out-of-list choice', 'form': cls.form_name, 'line': pf.field_name, 'text': txt, 'shard': spec})
                        break
        qn = scen.plain_persona(year, 'S', 52000.0, key=f'fltnc:{seed}', nc=True, overrides={'1040.apartment_no': 'Apt 12'})
        on_ = scen.solve_persona(qn)
        if on_.exc is None and on_.ret is True:
            rn = pdfdrive.fill(solution_as_cli(on_, year), year)
            res.evaluations += 1
            res.count('overlong_cases')
            if not isinstance(rn.exc, PF.PDFValueTooLong):
                res.violation(f'C19|{year}|overlong-not-rejected|apartment', f'apartment "Apt 12" for the 5-character box of the N.C. D-400: fill ended with {type(rn.exc).__name__ if rn.exc else "success"}',
                              {'engine': 'fault', 'what': 'apartment "Apt 12" on an N.C. return', 'persona': qn.describe(), 'shard': spec})
        for failop in ('fill_form', 'cat'):
            r = pdfdrive.fill(cp, year, fail=failop)
            res.evaluations += 1
            res.count('pdftk_failures_injected')
            if r.exc is None:
                res.violation(f'C19|{year}|pdftk-failure-ignored|{failop}', f'pdftk {failop} exited 3 but fill() reported success', {'engine': 'fault', 'fail': failop, 'shard': spec})
        res.distinct.add(f'faults|{year}')
        res.distinct.add(f'faults2|{year}')
        return res
    return res


def _safe_pairs(pdfdrive, c):
    try:
        return pdfdrive.parse_fdf(c['fdf_bytes'])
    except Exception:
        return []


def finalize(res, tier):
    c = res.counters
    if c.get('fdf_entries_compared', 0) < 3000:
        res.inconclusive.append(f'only {c.get("fdf_entries_compared", 0)} form-data entries compared')
    if c.get('cat_orders_checked', 0) < 30:
        res.inconclusive.append('fewer than 30 concatenation orders checked')
    if c.get('cli_fdf_entries_compared', 0) < 500:
        res.inconclusive.append(f'only {c.get("cli_fdf_entries_compared", 0)} entries compared on the command-line path')
    if c.get('adversarial_texts', 0) < 30:
        res.inconclusive.append('adversarial texts not run')
    return {}
