"""C08 - year- and status-indexed statutory amounts are the official ones.
Exhaustive over the (year, status, amount) triples of hv/statutory.py, each
observed in the running code by one of three routes: an *echo line* of a
directed scenario, a *threshold lookup* through Form.threshold, or a *verdict
flip* between two directed scenarios placed just below / at the official amount."""
from fractions import Fraction as Fr

from hv.common import Result
from hv import statutory as st

ID = 'C08'
LEVEL = 'exploration'
RULE = ('exhaustive over the triple list: one triple = (year, amount-id, status); evaluations = directed solves + threshold lookups; '
        'distinct_nontrivial = triples actually observed (echo value read / both sides of a flip seen); unobserved triples are listed')
ASSUMPTIONS = [
    'hv/statutory.py transcribes the published amounts correctly (DESIGN.md Appendix A); amounts I cannot cite are unclaimed',
    'for amounts that only decide an outcome the code may compare a conservative quantity: the oracle asserts the outcome just below / at the official amount only where the law fixes it',
]

YEARS = [2021, 2022, 2023]
STATUSES = ['S', 'MFJ', 'MFS', 'HOH', 'QSS']


def plan(tier, seed):
    sp = []
    for y in YEARS:
        for s in STATUSES:
            sp.append({'year': y, 'status': s, 'kind': 'echo'})
            sp.append({'year': y, 'status': s, 'kind': 'flip'})
            sp.append({'year': y, 'status': s, 'kind': 'nc'})
        sp.append({'year': y, 'kind': 'threshold'})
    return sp


class Ctx(object):
    def __init__(self, res, year, status, spec):
        self.res, self.year, self.status, self.spec = res, year, status, spec

    def solve(self, p, forms=None):
        from hv import realwork
        out, tv, t = realwork.traced(p, forms=forms)
        self.res.evaluations += 1
        vals = {k: v[-1] for k, v in tv.stored.items()}
        return out, tv, vals

    def triple(self, amount, status=None):
        return f'{self.year}|{amount}|{status or self.status}'

    def observed(self, amount, route, status=None):
        self.res.distinct.add(self.triple(amount, status))
        self.res.add('triples_observed', f'{self.triple(amount, status)}|{route}')

    def unobserved(self, amount, why, status=None):
        self.res.add('triples_unobserved', f'{self.triple(amount, status)}|{why}')

    def bad(self, amount, msg, p=None, status=None):
        from hv import realwork
        self.res.violation(f'C08|{self.year}|{amount}|{status or self.status}', f'{self.year} {status or self.status} {amount}: {msg}',
                           {'engine': 'c08', 'shard': self.spec, 'persona': p.describe() if p is not None else None})

    def echo(self, amount, vals, key, expected, p, tol=0.005, transform=None, status=None):
        """compare an echo line with the published amount"""
        if expected is None:
            return
        if key not in vals:
            self.unobserved(amount, f'line {key} not produced', status)
            return
        got = vals[key]
        if transform:
            got = transform(got)
        self.observed(amount, 'echo:' + key, status)
        if abs(float(got) - float(expected)) > tol:
            self.bad(amount, f'line {key} shows {got}, published amount is {float(expected)}', p, status)


def deps_for(status):
    return 1 if status in ('HOH', 'QSS') else 0


def outcome_of(tv, line):
    lo = tv.last_outcome(line)
    return lo[0] if lo else None


def run_echo(c):
    from hv import scen
    y, s = c.year, c.status
    d = deps_for(s)
    # --- standard deduction, AMT worksheet lines 6 and 8
    p = scen.plain_persona(y, s, 90000, deps_odc=d)
    out, tv, v = c.solve(p)
    c.echo('standard_deduction', v, '1040.12a' if '1040.12a' in v else '1040.12', st.amount('standard_deduction', y, s), p)
    p6 = scen.plain_persona(y, s, [100000, 100000] if s == 'MFJ' else 190000, deps_odc=d)
    out6, tv6, v6 = c.solve(p6)
    c.echo('amt_exemption', v6, '1040_s2_need_6251.6', st.amount('amt_exemption', y, s), p6)
    c.echo('amt_phaseout_start', v6, '1040_s2_need_6251.8', st.amount('amt_phaseout_start', y, s), p6)
    if d:
        c.echo('ctc_phaseout_start', v, '1040_s8812.9', st.amount('ctc_phaseout_start', y, s), p)
        c.echo('odc_per_dependent', v, '1040_s8812.7', st.amount('odc_per_dependent', y) * d, p)
    # --- capital gain worksheet lines 6 and 13
    p = scen.plain_persona(y, s, 90000, deps_odc=d, n_div=1, divs=[{'box_1a': 1000.0, 'box_1b': 1000.0, 'box_2a': 0.0, 'box_4': 0.0, 'box_5': 0.0, 'box_7': 0.0, 'box_16_1': 0.0}])
    out, tv, v = c.solve(p)
    c.echo('capgain_0pct_ceiling', v, '1040_qualdiv_capgain_tax_wkst.6', st.amount('capgain_0pct_ceiling', y, s), p)
    c.echo('capgain_15pct_ceiling', v, '1040_qualdiv_capgain_tax_wkst.13', st.amount('capgain_15pct_ceiling', y, s), p)
    # --- child credit amounts (two qualifying children, one other dependant)
    p = scen.plain_persona(y, s, 120000, deps_ctc=2, deps_odc=1)
    p.n_under6 = 1
    out, tv, v = c.solve(p)
    c.echo('ctc_phaseout_start', v, '1040_s8812.9', st.amount('ctc_phaseout_start', y, s), p)
    c.echo('odc_per_dependent', v, '1040_s8812.7', st.amount('odc_per_dependent', y), p)
    if y == 2021:
        c.echo('ctc_2021_under6', v, '1040_s8812.5_ws_1', 3600, p)
        c.echo('ctc_2021_6to17', v, '1040_s8812.5_ws_2', 3000, p)
        c.echo('ctc_2021_base', v, '1040_s8812.5_ws_4', 4000, p)
        c.echo('ctc_2021_line5wkst_line6', v, '1040_s8812.5_ws_6', st.amount('ctc_2021_line5wkst_line6', y, s), p)
        c.echo('ctc_2021_first_phaseout', v, '1040_s8812.5_ws_8', st.amount('ctc_2021_first_phaseout', y, s), p)
        # Part III line 33: only figured when the advance payments exceed the credit and Letter 6419 counted more children
        p3 = scen.plain_persona(y, s, 47000 if s in ('MFJ', 'QSS') else 38000, deps_ctc=1, deps_odc=1)
        p3.advance_ctc, p3.letter_children = 5200.0, 3
        out3, tv3, v3 = c.solve(p3)
        c.echo('ctc_2021_repayment_protection_agi', v3, '1040_s8812.33', st.amount('ctc_2021_repayment_protection_agi', y, s), p3)
    else:
        c.echo('ctc_per_child', v, '1040_s8812.5', st.amount('ctc_per_child', y) * 2, p)
        # additional child tax credit cap: needs credit > tax
        p2 = scen.plain_persona(y, s, 50000 if s != 'MFJ' else 60000, deps_ctc=3)
        out, tv, v2 = c.solve(p2)
        c.echo('actc_cap_per_child', v2, '1040_s8812.16b', st.amount('actc_cap_per_child', y) * 3, p2)
    # --- HSA limits
    for fam, name in ((False, 'hsa_limit_self'), (True, 'hsa_limit_family')):
        p = scen.plain_persona(y, s, 90000, deps_odc=d, hsa_you=True, hsa_family=fam, s1_adjust=True)
        out, tv, v = c.solve(p)
        c.echo(name, v, '8889:you.3', st.amount(name, y), p)
    # --- Additional Medicare threshold (line 5 of Form 8959)
    p = scen.plain_persona(y, s, 210000, deps_odc=d)
    out, tv, v = c.solve(p)
    c.echo('addl_medicare_threshold', v, '8959.5', st.amount('addl_medicare_threshold', y, s), p)
    # --- SALT cap
    p = scen.plain_persona(y, s, 150000, deps_odc=d, itemize=True, n_1098=1, f1098=[{'box_1': 20000.0, 'box_6': 0.0, 'box_4': 0.0, 'box_5': 0.0}])
    p.sa['state_local_real_estate_taxes'] = 30000.0
    out, tv, v = c.solve(p)
    c.echo('salt_cap', v, '1040_sa.5e', st.amount('salt_cap', y, s), p)
    # --- 2021 only: recovery rebate, cash charity
    if y == 2021:
        ov = {'1040_recovery_rebate_credit_wkst.ssn_before_due_date': 'yes', '1040_recovery_rebate_credit_wkst.eip_3_amount': '0',
              '1040_recovery_rebate_credit_wkst.dependents_ssn_before_due_date': '0', '1040.charitable_contributions_std_ded': '1000'}
        start = st.amount('rrc_phaseout_start', y, s)
        end = st.amount('rrc_phaseout_end', y, s)
        mid = (start + end) // 2
        p = scen.plain_persona(y, s, mid, deps_odc=d, overrides=ov)
        out, tv, v = c.solve(p)
        W = '1040_recovery_rebate_credit_wkst.'
        c.echo('rrc_per_person', v, W + '6', st.amount('rrc_per_person', y) * (2 if s == 'MFJ' else 1), p)
        if s == 'MFJ':
            # joint return on which only one spouse has a valid social security number (and no armed-forces exception): one amount, not two
            ov1 = dict(ov, **{W + 'ssn_before_due_date': 'no', W + 'armed_forces': 'no', W + 'either_ssn_before_due_date': 'yes'})
            p1 = scen.plain_persona(y, s, mid, deps_odc=d, overrides=ov1)
            out1, tv1, v1 = c.solve(p1)
            c.echo('rrc_per_person', v1, W + '6', st.amount('rrc_per_person', y), p1)
            ov2 = dict(ov1, **{W + 'armed_forces': 'yes'})
            p2 = scen.plain_persona(y, s, mid, deps_odc=d, overrides=ov2)
            out2, tv2, v2 = c.solve(p2)
            c.echo('rrc_per_person', v2, W + '6', st.amount('rrc_per_person', y) * 2, p2)
        if W + '10' in v:
            c.echo('rrc_phaseout_end', v, W + '10', end, p, transform=lambda x: x + mid)
        else:
            c.unobserved('rrc_phaseout_end', 'worksheet line 10 not produced')
        if W + '11' in v and W + '10' in v and v[W + '11']:
            c.echo('rrc_denominator', v, W + '11', st.amount('rrc_denominator', y, s), p, transform=lambda x: v[W + '10'] / x, tol=1.0)
        else:
            c.unobserved('rrc_denominator', 'worksheet line 11 not produced')
        c.echo('cash_charity_nonitemizer', v, '1040.12b', st.amount('cash_charity_nonitemizer', y, s), p)
        # phase-out start decides the box on line 9
        for wages, want in ((start, False), (start + 1, True)):
            p = scen.plain_persona(y, s, wages, deps_odc=d, overrides=ov)
            out, tv, v = c.solve(p)
            if W + '9_checkbox' not in v:
                c.unobserved('rrc_phaseout_start', 'line 9 box not produced')
                break
            c.observed('rrc_phaseout_start', 'flip:' + W + '9_checkbox')
            if v[W + '9_checkbox'] is not want:
                c.bad('rrc_phaseout_start', f'with AGI {wages} the "AGI above the phase-out start" box is {v[W + "9_checkbox"]}; the published start is {start}', p)
                break


def flip(c, amount, below, at, observe, want_below, want_at, what):
    """two directed solves around the official amount"""
    seen = []
    for p, want in ((below, want_below), (at, want_at)):
        out, tv, v = c.solve(p)
        got = observe(out, tv, v)
        if got is None:
            c.unobserved(amount, f'{what}: deciding line not reached')
            return
        seen.append((got, want, p))
    c.observed(amount, 'flip:' + what)
    for got, want, p in seen:
        if got != want:
            c.bad(amount, f'{what}: observed {got!r}, the published amount {st.amount(amount.split("#")[0], c.year, c.status) if amount.split("#")[0] in st.AMOUNTS and not isinstance(st.AMOUNTS[amount.split("#")[0]].get(c.year), list) else ""} requires {want!r} (wages {p.total_wages})', p)
            return


def run_flip(c):
    from hv import scen
    y, s = c.year, c.status
    d = deps_for(s)
    eicline = '1040.27a' if y == 2021 else '1040.27'
    # --- EIC AGI limits by number of children (MFS is not eligible at all: unclaimed)
    if s != 'MFS':
        table = st.AMOUNTS['eic_limit_mfj' if s == 'MFJ' else 'eic_limit_other'][y]
        for n in range(4):
            lim = table[n]
            flip(c, f'eic_limit#{n}', scen.plain_persona(y, s, lim - 1, deps_odc=n), scen.plain_persona(y, s, lim, deps_odc=n),
                 lambda out, tv, v: outcome_of(tv, eicline), 'unimplemented', 'value', f'EIC possible below AGI {lim} with {n} children')
        # EIC investment income cap (wages 3000, no children: AGI below every limit)
        cap = st.amount('eic_investment_cap', y)
        mk = lambda interest: scen.plain_persona(y, s, 3000, n_int=1, ints=[{'box_1': float(interest), 'box_3': 0.0, 'box_2': 0.0, 'box_4': 0.0, 'box_6': 0.0, 'box_8': 0.0, 'box_17_1': 0.0}])
        flip(c, 'eic_investment_cap', mk(cap), mk(cap + 1), lambda out, tv, v: outcome_of(tv, eicline), 'unimplemented', 'value', f'investment income cap {cap}')
    # --- QBI simplified-form limit
    lim = st.amount('qbi_simplified_limit', y, s)
    std = st.amount('standard_deduction', y, s)
    mkq = lambda agi: scen.plain_persona(y, s, agi - 100, deps_odc=d, n_div=1,
                                         divs=[{'box_1a': 100.0, 'box_1b': 0.0, 'box_2a': 0.0, 'box_4': 0.0, 'box_5': 100.0, 'box_7': 0.0, 'box_16_1': 0.0}])
    flip(c, 'qbi_simplified_limit', mkq(lim), mkq(lim + std + 2), lambda out, tv, v: outcome_of(tv, '1040.13'), 'value', 'unimplemented',
         f'Form 8995 usable at AGI {lim}; not when taxable income before the deduction exceeds {lim}')
    # --- saver's credit AGI limit
    lim = st.amount('saver_credit_limit', y, s)
    ov = {'1040.need_schedule_3_part_i': 'yes', '1040_s3.retirement_savings_contributions': 'yes'}
    flip(c, 'saver_credit_limit', scen.plain_persona(y, s, lim, deps_odc=d, overrides=ov), scen.plain_persona(y, s, lim + 1, deps_odc=d, overrides=ov),
         lambda out, tv, v: outcome_of(tv, '1040_s3.4'), 'unimplemented', 'value', f"saver's credit available up to AGI {lim}")
    # --- Form 1116 election ceiling
    lim = st.amount('form_1116_ceiling', y, s)
    mkf = lambda ft: scen.plain_persona(y, s, 90000, deps_odc=d, n_int=1, ints=[{'box_1': 100.0, 'box_3': 0.0, 'box_2': 0.0, 'box_4': 0.0, 'box_6': float(ft), 'box_8': 0.0, 'box_17_1': 0.0}])
    flip(c, 'form_1116_ceiling', mkf(lim), mkf(lim + 0.01), lambda out, tv, v: outcome_of(tv, '1040_s3.1'), 'value', 'unimplemented', f'foreign tax credit without Form 1116 up to {lim}')
    # --- Schedule B threshold
    lim = st.amount('sched_b_threshold', y)
    mki = lambda amt: scen.plain_persona(y, s, 90000, deps_odc=d, n_int=1, ints=[{'box_1': float(amt), 'box_3': 0.0, 'box_2': 0.0, 'box_4': 0.0, 'box_6': 0.0, 'box_8': 0.0, 'box_17_1': 0.0}])
    flip(c, 'sched_b_threshold', mki(lim), mki(lim + 0.01), lambda out, tv, v: ('1040_sb.4' in v) if '1040.2b' in v else None, False, True, f'Schedule B required over {lim} of interest')
    # --- Additional Medicare Tax threshold decides whether Form 8959 is needed
    lim = st.amount('addl_medicare_threshold', y, s)
    split = lambda w: [w / 2.0, w / 2.0] if w > 200000 else [w]
    flip(c, 'addl_medicare_threshold', scen.plain_persona(y, s, split(lim), deps_odc=d), scen.plain_persona(y, s, split(lim + 2), deps_odc=d),
         lambda out, tv, v: ('8959.7' in v) if '1040.11' in v else None, False, True, f'Form 8959 needed when Medicare wages exceed {lim}')
    # --- employer withholding point 200000 on a single W-2
    wp = st.amount('addl_medicare_withholding_point', y)
    if s == 'MFJ':
        flip(c, 'addl_medicare_withholding_point', scen.plain_persona(y, s, [wp, 1000], deps_odc=d), scen.plain_persona(y, s, [wp + 1, 1000], deps_odc=d),
             lambda out, tv, v: ('8959.7' in v) if '1040.11' in v else None, False, True, f'Form 8959 needed when one W-2 shows Medicare wages over {wp}')
    # --- AMT 26/28 % point (worksheet line 12 comparison)
    x = st.amount('amt_28pct_point', y, s)
    ex = st.amount('amt_exemption', y, s)
    flip(c, 'amt_28pct_point', scen.plain_persona(y, s, split(x + ex), deps_odc=d), scen.plain_persona(y, s, split(x + ex + 2), deps_odc=d),
         lambda out, tv, v: v.get('1040_s2_need_6251.need_6251'), False, True, f'Form 6251 needed when worksheet line 11 exceeds {x}')


def run_nc(c):
    from hv import scen
    y, s = c.year, c.status
    d = deps_for(s)
    f1098 = [{'box_1': 3000.0, 'box_6': 0.0, 'box_4': 0.0, 'box_5': 0.0}]
    p = scen.plain_persona(y, s, 90000, deps_odc=d, nc=True, n_1098=1, f1098=f1098)
    p.sa['state_local_real_estate_taxes'] = 25000.0
    p.ncv['try_itemizing'] = True
    out, tv, v = c.solve(p)
    c.echo('nc_standard_deduction', v, 'nc_d-400_sa.nc_standard_deduction', st.amount('nc_standard_deduction', y, s), p)
    c.echo('nc_mortgage_proptax_cap', v, 'nc_d-400_sa.4', st.amount('nc_mortgage_proptax_cap', y), p)
    if 'nc_d-400.14' in v and 'nc_d-400.15' in v and v['nc_d-400.14'] > 1000:
        rate = st.amount('nc_rate', y)
        c.observed('nc_rate', 'echo:nc_d-400.15/14')
        if abs(v['nc_d-400.15'] - float(rate) * v['nc_d-400.14']) > 0.5001:
            c.bad('nc_rate', f'line 15 = {v["nc_d-400.15"]} for line 14 = {v["nc_d-400.14"]}: not {float(rate) * 100:.2f} %', p)
    else:
        c.unobserved('nc_rate', 'NC lines 14/15 not produced')
    # child deduction per AGI band: at each edge and one dollar above
    bands = st.NC_CHILD[y][s]
    for k, (edge, amt) in enumerate(bands):
        nxt = bands[k + 1][1] if k + 1 < len(bands) else 0
        for wages, want in ((edge, amt), (edge + 1, nxt)):
            p = scen.plain_persona(y, s, wages, deps_ctc=1, deps_odc=0, nc=True, n_1098=1, f1098=f1098)
            out, tv, v = c.solve(p)
            key = 'nc_d-400_child_deduction_wkst.4'
            name = f'nc_child_deduction#{edge}'
            if key not in v:
                c.unobserved(name, 'worksheet line 4 not produced')
                break
            c.observed(name, 'echo:' + key)
            if abs(v[key] - want) > 0.005:
                c.bad(name, f'federal AGI {wages}: deduction per child {v[key]}, published {want}', p)
                break
        # the band is that of the FEDERAL adjusted gross income: N.C. additions (Schedule S part A) and deductions do not move it
        p = scen.plain_persona(y, s, edge - 150, deps_ctc=1, deps_odc=0, nc=True, n_1098=1, f1098=f1098)
        p.ncv['additions_to_agi'] = True
        p.overrides.update({'nc_d-400_ss.interest_income_not_nc': '600'})
        out, tv, v = c.solve(p)
        key = 'nc_d-400_child_deduction_wkst.4'
        if key in v and v.get('nc_d-400.7', 0.0) > 0:
            if abs(v[key] - amt) > 0.005:
                c.bad(f'nc_child_deduction#{edge}', f'federal AGI {edge - 150} with N.C. additions of {v.get("nc_d-400.7")}: deduction per child {v[key]}, published {amt} for that federal AGI', p)


# (form, table) -> (amount name in hv/statutory.py, index for list-valued amounts)
TABLES = {
    ('1040', 'standard_deduction'): 'standard_deduction', ('1040', 'form_8995_required'): 'qbi_simplified_limit',
    ('1040', 'additional_medicare_tax_applies'): 'addl_medicare_threshold', ('1040', 'additional_medicare_tax_withheld'): 'addl_medicare_withholding_point',
    ('1040', 'eic_max_investment_income'): 'eic_investment_cap', ('1040', 'sched_b_required_interest'): 'sched_b_threshold',
    ('1040', 'sched_b_required_dividends'): 'sched_b_threshold',
    ('1040_qualdiv_capgain_tax_wkst', 'line_6'): 'capgain_0pct_ceiling', ('1040_qualdiv_capgain_tax_wkst', 'line_13'): 'capgain_15pct_ceiling',
    ('1040_s2_need_6251', 'line_6'): 'amt_exemption', ('1040_s2_need_6251', 'line_8'): 'amt_phaseout_start', ('1040_s2_need_6251', 'line_12_comparison'): 'amt_28pct_point',
    ('1040_s3', 'form_1116_foreign_tax'): 'form_1116_ceiling', ('1040_s3', 'retirement_savings_limit'): 'saver_credit_limit',
    ('1040_s8812', '9_amount'): 'ctc_phaseout_start', ('1040_s8812', 'max_additional_child_tax_credit'): 'actc_cap_per_child',
    ('1040_sa', 'tax_deduction_limit'): 'salt_cap', ('8889', 'hsa_individual_contribution_limit'): 'hsa_limit_self', ('8889', 'hsa_family_contribution_limit'): 'hsa_limit_family',
    ('nc_d-400_sa', 'nc_standard_deduction'): 'nc_standard_deduction',
}
for _n in range(4):
    TABLES[('1040', f'eic_disallowed_{_n}_dependents')] = ('eic', _n)


def run_threshold(c):
    """every table keyed through Form.threshold, each of the five statuses"""
    from hv import hx
    FM = hx.form
    y = c.year
    captured = {}
    orig = FM.Form.__init__

    def init(self, child_cls, *a, **kw):
        captured[id(self)] = kw.get('thresholds', {})
        return orig(self, child_cls, *a, **kw)
    FM.Form.__init__ = init
    try:
        enum = hx.status_enum(y)
        for cls in hx.catalogue(y):
            fo = cls(instance=hx.instances_for(cls)[0])
            for tname, t in (captured.get(id(fo)) or {}).items():
                m = TABLES.get((cls.form_name, tname))
                if m is None:
                    c.res.add('threshold_tables_unclaimed', f'{y}|{cls.form_name}|{tname}')
                    continue
                for member in enum:
                    code = st.STATUS_BY_MEMBER[member.name]
                    c.res.evaluations += 1
                    c.res.count('threshold_lookups')
                    try:
                        got = fo.threshold(tname, member) if isinstance(t, dict) else fo.threshold(tname)
                    except BaseException as e:  # noqa
                        c.bad(str(m), f'threshold({tname!r}, {member.name}) raises {type(e).__name__}', None, code)
                        continue
                    if isinstance(m, tuple):
                        if code == 'MFS':
                            continue
                        exp = st.AMOUNTS['eic_limit_mfj' if code == 'MFJ' else 'eic_limit_other'][y][m[1]]
                        name = f'eic_limit#{m[1]}'
                    else:
                        exp = st.amount(m, y, code)
                        name = m
                    if exp is None:
                        continue
                    c.observed(name, f'threshold:{cls.form_name}.{tname}', code)
                    if abs(float(got) - float(exp)) > 0.005:
                        c.bad(name, f'threshold table {cls.form_name}.{tname} gives {got}, published {float(exp)}', None, code)
    finally:
        FM.Form.__init__ = orig


def run_shard(spec, tier, seed):
    res = Result()
    c = Ctx(res, spec['year'], spec.get('status', '*'), spec)
    {'echo': run_echo, 'flip': run_flip, 'nc': run_nc, 'threshold': run_threshold}[spec['kind']](c)
    if spec['kind'] == 'echo':
        res.sample({'year': c.year, 'status': c.status, 'route': 'echo', 'observed': sorted(res.sets.get('triples_observed', ()))[:6]})
    return res


def expected_triples():
    tr = set()
    for y in YEARS:
        for s in STATUSES:
            for a in ('standard_deduction', 'amt_exemption', 'amt_phaseout_start', 'capgain_0pct_ceiling', 'capgain_15pct_ceiling', 'ctc_phaseout_start',
                      'odc_per_dependent', 'hsa_limit_self', 'hsa_limit_family', 'addl_medicare_threshold', 'salt_cap', 'qbi_simplified_limit',
                      'saver_credit_limit', 'form_1116_ceiling', 'sched_b_threshold', 'amt_28pct_point', 'nc_standard_deduction', 'nc_rate'):
                tr.add(f'{y}|{a}|{s}')
            if s != 'MFS':
                for n in range(4):
                    tr.add(f'{y}|eic_limit#{n}|{s}')
                tr.add(f'{y}|eic_investment_cap|{s}')
            if y >= 2022:
                tr.add(f'{y}|ctc_per_child|{s}')
                tr.add(f'{y}|actc_cap_per_child|{s}')
            else:
                for a in ('rrc_per_person', 'rrc_phaseout_start', 'rrc_phaseout_end', 'rrc_denominator', 'cash_charity_nonitemizer', 'ctc_2021_line5wkst_line6', 'ctc_2021_first_phaseout', 'ctc_2021_repayment_protection_agi'):
                    tr.add(f'{y}|{a}|{s}')
            for edge, amt in st.NC_CHILD[y][s]:
                tr.add(f'{y}|nc_child_deduction#{edge}|{s}')
    return tr


def finalize(res, tier):
    exp = expected_triples()
    seen = res.distinct & exp
    missing = sorted(exp - res.distinct)
    out = {'exhaustive': True, 'triples_expected': len(exp), 'triples_observed_n': len(seen), 'triples_not_observed': missing[:80],
           'unobserved_reasons': sorted(res.sets.get('triples_unobserved', ()))[:80]}
    if len(missing) > 0.02 * len(exp):
        res.inconclusive.append(f'{len(missing)} of {len(exp)} triples not observed, e.g. {missing[:6]}')
    return out
