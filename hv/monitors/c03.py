"""C03 - every stored value is a fixed point of its line definition.
After each traced solve every stored line is re-evaluated with its own
Field.value on accessors over the final input store and final value store."""
from hv.common import Result
from hv import progwork, oracles, drive

ID = 'C03'
LEVEL = 'exploration'
RULE = ('one evaluation = one traced solve under one schedule; the deciding count is lines_reevaluated; non-trivial = '
        'the run had at least one re-attempted line (a wait that was later released); distinct = execution signatures')
ASSUMPTIONS = [
    'line definitions are pure functions of (inputs, values): re-evaluation on the final stores is meaningful',
    'schedule permutation through habutax.solver.sort_keys reaches the orders the solver can take',
]


def plan(tier, seed):
    sp = progwork.shards(tier, 2000, 120000)
    from hv import realwork
    return sp + realwork.shards('C03', tier)


def run_shard(spec, tier, seed):
    if spec['kind'] == 'real':
        from hv import realwork
        return realwork.run_shard('C03', spec, tier, seed)
    res = Result()
    for label, prog in progwork.programs(spec, seed):
        seeds = [None, 1, 2] if spec['part'] != 'small' else [None, 1]
        for ss in seeds:
            out, tv, t = progwork.traced_run(prog, schedule_seed=ss)
            res.evaluations += 1
            viol, n = oracles.c03(out, tv)
            res.count('lines_reevaluated', n)
            res.count('ev_READ_LINE', sum(1 for e in tv.events if e[0] == 'READ_LINE'))
            res.count('ev_STORE_LINE', sum(1 for e in tv.events if e[0] == 'STORE_LINE'))
            reatt = any(len(a) > 1 for a in tv.attempts.values())
            if reatt:
                res.count('runs_with_reattempts')
                res.distinct.add(progwork.shape_sig(prog, out, tv))
            res.add('schedules', str(ss))
            for suffix, msg in viol:
                res.violation(f'C03|prog|{suffix}', f'{label} schedule={ss}: {msg}', progwork.prog_replay(label, prog, ss, {'shard': spec}))
            if res.evaluations == 1:
                res.sample({'label': label, 'schedule_seed': ss, 'stored': {k: repr(v[-1]) for k, v in list(tv.stored.items())[:8]},
                            'lines_reevaluated': n})
    return res


def finalize(res, tier):
    if res.counters.get('lines_reevaluated', 0) < 1000:
        res.inconclusive.append('fewer than 1000 stored lines were re-evaluated')
    return {}
