"""C18 - each PDF box is filled from the line its template assigns to it.
Every mapping of every fileable form is joined with the field tree parsed from
the bundled template (hv/pdfspec.py), both statically on the live PDFField
objects and at the pdftk boundary (FDF entries of synthetic fills populating
every mapped line)."""
import configparser
import itertools
import os
import re

from hv.common import Result

ID = 'C18'
LEVEL = 'exploration'
RULE = ('exhaustive over mappings: one evaluation per (year, form, mapping) joined with the template, plus one per (mapping, driving value) '
        'for check boxes and choices, plus one per FDF entry observed at the stand-in pdftk; distinct_nontrivial = distinct (year, form, template field) mapped')
ASSUMPTIONS = [
    'hv/pdfspec.py reads the XFA packet / AcroForm of the bundled PDFs correctly (all mapped names resolve against it)',
    'a template label is the first sentence-initial line number of the field\'s accessibility text; labels that do not fit the template\'s own reading order are treated as unlabelled',
    'alias table LABEL_ALIASES lists names that legitimately drive a box labelled differently (each entry justified inline)',
]

# (form, mapped line) -> template label it legitimately drives.  Each entry is a
# habutax line *name* that is not the printed line number.
LABEL_ALIASES = {
    # Schedule B line 7a has two yes/no questions; habutax calls the second one '7b' and the country box '7b_country'
    ('1040_sb', '7a'): {'7a'}, ('1040_sb', '7b'): {'7a'}, ('1040_sb', '7b_country'): {'7b'},
    # Schedule 8812 (2022+): the number of qualifying children (line 4) is printed again inside line 16b
    ('1040_s8812', '4'): {'4', '16b'},
    # Schedule 8812 (2022+): the boolean "line 8 > line 11" drives the No/Yes boxes printed on line 12
    ('1040_s8812', '8_gt_11'): {'12'},
}


def plan(tier, seed):
    n = 3 if tier == 'quick' else 60
    return [{'year': y} for y in (2021, 2022, 2023)] + [{'kind': 'realfills', 'year': y, 'n': n} for y in (2021, 2022, 2023)]


def run_realfills(spec, tier, seed):
    """Exclusive groups whose boxes are driven by several lines (NC filing status
    1-5, yes/no pairs) can only be judged on coherent values: fill real solved
    returns and look at what is actually sent to pdftk."""
    from hv import hx, scen, pdfspec, pdfdrive
    from hv.monitors.c19 import solution_as_cli
    res = Result()
    year = spec['year']
    fams = ['F8', 'F8', 'F1', 'F3', 'F0', 'F2', 'F4', 'F5', 'F6', 'F9', 'F10']
    done = 0
    k = 0
    while done < spec['n'] * 4 and k < spec['n'] * 12:
        fam = fams[k % len(fams)]
        p = scen.Persona(year, fam, f'c18real:{seed}:{k}')
        k += 1
        out = scen.solve_persona(p)
        if out.exc is not None or out.ret is not True:
            continue
        done += 1
        r = pdfdrive.fill(solution_as_cli(out, year), year)
        res.evaluations += 1
        res.count('real_fills')
        if r.exc is not None:
            continue
        for call in r.calls:
            if call['op'] != 'fill_form':
                continue
            tpl = pdfspec.parse(call['argv'][0])
            try:
                pairs = pdfdrive.parse_fdf(call['fdf_bytes'])
            except pdfdrive.FDFSyntaxError:
                continue
            on = {}
            for t, v in pairs:
                tf = tpl.fields.get(t)
                res.count('fdf_entries_joined')
                if tf is None:
                    res.violation(f'C18|{year}|{os.path.basename(call["argv"][0])}|fdf-field-not-in-template|{t.split(".")[-1]}', f'{year} real fill: {t} not in the template', {'year': year, 'persona': p.describe()})
                    continue
                if tf.kind == 'button' and v not in ('Off', ''):      # '' = a line the solution does not have: the box is left alone
                    if v not in tf.on_values:
                        res.violation(f'C18|{year}|{os.path.basename(call["argv"][0])}|fdf-export-value|{t.split(".")[-1]}', f'{year} real fill: {t} set to {v!r}, template exports {tf.on_values}', {'year': year, 'persona': p.describe()})
                    g = tf.group or nc_group(t)
                    if g:
                        on.setdefault(g, []).append(t.split('.')[-1])
                if tf.kind == 'text' and tf.max_len is not None and len(v) > tf.max_len:
                    res.violation(f'C18|{year}|{os.path.basename(call["argv"][0])}|fdf-too-long|{t.split(".")[-1]}', f'{year} real fill: {len(v)} characters into {t} (limit {tf.max_len})', {'year': year, 'persona': p.describe()})
            for g, boxes in on.items():
                res.count('real_groups_checked')
                res.distinct.add(f'{year}|group|{os.path.basename(call["argv"][0])}|{g.split(".")[-1]}')
                if len(boxes) > 1:
                    res.violation(f'C18|{year}|{os.path.basename(call["argv"][0])}|exclusive-group-two-on-in-fill|{g.split(".")[-1]}', f'{year} {fam} {p.key}: boxes {boxes} of one exclusive group are on together', {'year': year, 'persona': p.describe()})
    # per-owner copies of one form (8889:you / 8889:spouse, 8606:...): the identity boxes of each copy show that copy's owner - a box
    # mapped to the taxpayer's SSN line reads fine on the taxpayer's copy and wrong on the spouse's
    import re as _re
    for fam, p in scen.directed_personas(year, seed, 2 if tier == 'quick' else 12):
        out = scen.solve_persona(p)
        if out.exc is not None or out.ret is not True:
            continue
        sol = scen.typed_solution(out)
        owners = {}
        for key in sol:
            full = key.split('.', 1)[0]
            if ':' in full and full.split(':', 1)[1] in ('you', 'spouse'):
                owners.setdefault(full.split(':', 1)[0], set()).add(full.split(':', 1)[1])
        both = [f for f, o in owners.items() if o == {'you', 'spouse'}]
        ssn = {w: _re.sub(r'\D', '', str(sol.get(f'1040.{w}_ssn', ''))) for w in ('you', 'spouse')}
        if not both or not ssn['you'] or not ssn['spouse'] or ssn['you'] == ssn['spouse']:
            continue
        r = pdfdrive.fill(solution_as_cli(out, year), year)
        res.evaluations += 1
        res.count('real_fills_with_copies_of_both_spouses')
        if r.exc is not None:
            continue
        seen = {}
        for call in r.calls:
            if call['op'] != 'fill_form':
                continue
            tpl = pdfspec.parse(call['argv'][0])
            try:
                pairs = pdfdrive.parse_fdf(call['fdf_bytes'])
            except pdfdrive.FDFSyntaxError:
                continue
            for t, v in pairs:
                tf = tpl.fields.get(t)
                if tf is not None and tf.kind == 'text' and 'social security number' in (tf.speak or '').lower() and not _re.search(r'spouse.{0,3}s social', (tf.speak or '').lower()) and v:
                    seen.setdefault((os.path.basename(call['argv'][0]), t), []).append(_re.sub(r'\D', '', v))
        for (tb, t), vals in seen.items():
            if len(vals) != 2:
                continue
            res.count('owner_identity_boxes_checked')
            res.distinct.add(f'{year}|owner|{tb}|{t.split(".")[-1]}')
            if sorted(vals) != sorted(ssn.values()):
                res.violation(f'C18|{year}|{tb}|copy-shows-other-owner|{t.split(".")[-1]}', f'{year} {fam} {p.key}: the two copies of {tb} (taxpayer and spouse) show {vals} in {t.split(".")[-1]}; the owners\' numbers are {sorted(ssn.values())}', {'year': year, 'persona': p.describe()})
    return res


class Truthy(object):
    """values stand-in for needs_filing(): everything present and large"""
    def __getitem__(self, k):
        return Big()

    def __contains__(self, k):
        return True


class Big(float):
    def __new__(cls):
        return float.__new__(cls, 1e9)

    def __gt__(self, o):
        return True

    def __bool__(self):
        return True


def can_require_filing(fo):
    try:
        return bool(fo.needs_filing(Truthy()))
    except BaseException:
        return True


def label_of(speak):
    """first sentence-initial line label of the accessibility text, or None"""
    if not speak:
        return None
    s = speak
    for m in re.finditer(r'(?:^|(?<=[.?:)] ))(\d{1,2}[a-z]?)\. ?', s):
        pre = s[:m.start()].rstrip()
        lastword = pre.split(' ')[-1].lower().rstrip(':.') if pre else ''
        if lastword in ('page', 'row', 'entry', 'line', 'part', 'column', 'box', 'no', 'form', 'lines', 'and', 'or', 'through'):
            continue
        lab = m.group(1)
        rest = s[m.end():]
        if lab.isdigit():
            m2 = re.match(r'[^.]*?: ([a-z])\. ', rest)
            if m2 and len(rest[:m2.start(1)]) < 80:
                lab += m2.group(1)
        return lab
    return None


def norm_line(name):
    """habutax line name -> printed line label, or None if it is not a numbered line"""
    m = re.match(r'^(\d{1,2}[a-z]?)(?:$|_)', name)
    return m.group(1) if m else None


def typed_values(fld, hx):
    F = hx.fields
    if isinstance(fld, F.BooleanField):
        return [True, False]
    if isinstance(fld, F.EnumField):
        return list(fld.enum()) + [None]
    if isinstance(fld, F.IntegerField):
        return [3, 0]
    if isinstance(fld, F.FloatField):
        return [1234.56, 0.0]
    return ['Text', '']


def run_shard(spec, tier, seed):
    if spec.get('kind') == 'realfills':
        return run_realfills(spec, tier, seed)
    from hv import hx, pdfspec, pdfdrive
    F, PF = hx.fields, hx.pdf_fields
    year = spec['year']
    res = Result()

    def V(form, kind, msg, extra=None):
        res.violation(f'C18|{year}|{form}|{kind}', f'{year} {form}: {msg}', {'year': year, 'form': form, 'shard': spec, 'extra': extra})

    forms = []
    for cls in hx.catalogue(year):
        for inst in hx.instances_for(cls)[:2]:
            fo = cls(instance=inst)
            forms.append(fo)
    fmap = {fo.name(): fo for fo in forms}
    for fo in forms:
        fname = fo.name().split(':')[0]
        fileable = can_require_filing(fo)
        if not fileable:
            res.count('forms_never_filed')
            continue
        res.count('fileable_forms')
        pfile = fo.pdf_file()
        if not pfile or not os.path.exists(pfile):
            V(fname, 'no-template', f'can require filing but has no template file ({pfile})')
            continue
        if not fo.pdf_fields():
            V(fname, 'no-mappings', 'can require filing but maps no line to its template')
            continue
        tpl = pdfspec.parse(pfile)
        if not (f'ty{year}' in pfile):
            V(fname, 'template-of-other-year', f'template path {pfile}')
        fields = {f.name(): f for f in fo.fields()}
        seen_targets = {}
        labelled = []
        for pf in fo.pdf_fields():
            res.evaluations += 1
            res.count('mappings')
            target = pf.pdf_field_name
            line = pf.field_name
            qual = line if '.' in line else f'{fo.name()}.{line}'
            # mapped line exists
            if '.' in line:
                ofo = fmap.get(line.split('.')[0])
                fld = None
                if ofo is not None:
                    fld = {f.name(): f for f in ofo.fields()}.get(line)
            else:
                fld = fields.get(qual)
            if fld is None:
                V(fname, f'mapped-line-missing|{line}', f'mapping {target} names line {line!r} which does not exist')
                continue
            tf = tpl.fields.get(target)
            if tf is None:
                V(fname, f'field-not-in-template|{target.split(".")[-1]}', f'mapping of line {line} targets {target!r}, absent from {os.path.basename(pfile)}')
                continue
            res.distinct.add(f'{year}|{fname}|{target}')
            if target in seen_targets:
                V(fname, f'field-mapped-twice|{target.split(".")[-1]}', f'{target} is driven by {seen_targets[target]} and by {line}')
            seen_targets[target] = line
            # kind
            kind = 'text' if isinstance(pf, PF.TextPDFField) else 'button' if isinstance(pf, (PF.ButtonPDFField, PF.OptionlessButtonPDFField)) else \
                'choice' if isinstance(pf, PF.ChoicePDFField) else 'other'
            if kind != tf.kind:
                V(fname, f'kind-mismatch|{line}', f'line {line} -> {target}: mapping is a {kind} field, the template field is {tf.kind}')
            # length limit
            if kind == 'text':
                ml = getattr(pf, 'max_length', None)
                if tf.max_len is not None and (ml is None or ml > tf.max_len):
                    res.count('length_limit_checks')
                    if not isinstance(fld, F.FloatField):
                        V(fname, f'length-limit-missing-or-larger|{line}', f'line {line} -> {target}: template allows {tf.max_len} characters, mapping allows {ml}')
                    else:
                        res.count('money_boxes_with_template_limit')
                elif tf.max_len is not None and ml is not None and ml != tf.max_len:
                    V(fname, f'length-limit-disagrees|{line}', f'line {line} -> {target}: template allows {tf.max_len} characters, mapping {ml}')
                elif tf.max_len is not None:
                    res.count('length_limit_checks')
                # the limit counts characters, as the template's does: a text of exactly that many characters is accepted whatever
                # the characters are (an accented initial, a name beyond Latin-1), one more character is refused
                if ml is not None and tf.max_len is not None and ml == tf.max_len and isinstance(fld, F.StringField):
                    for label_, first in (('ascii', 'X'), ('accented', 'É'), ('beyond-latin-1', 'ř'), ('cjk', '東')):
                        txt = (first + 'x' * ml)[:ml]
                        res.evaluations += 1
                        res.count('limit_behaviour_probes')
                        try:
                            out_ = pf.value(txt, fld)
                        except BaseException as e:  # noqa
                            V(fname, f'text-within-template-limit-refused|{label_}', f'line {line} -> {target}: a text of {ml} characters ({txt!r}) fits the template limit of {tf.max_len} but is refused: {type(e).__name__}')
                            break
                        if not isinstance(out_, str) or len(out_) != ml:
                            V(fname, f'text-within-template-limit-changed|{label_}', f'line {line} -> {target}: {txt!r} is written as {out_!r}')
                            break
                        try:
                            pf.value(txt + 'y', fld)
                            V(fname, f'text-over-template-limit-accepted|{label_}', f'line {line} -> {target}: a text of {ml + 1} characters is accepted, the template allows {tf.max_len}')
                            break
                        except PF.PDFValueTooLong:
                            pass
                        except BaseException:  # noqa
                            pass
            # export values / choices for every value of the driving line
            if kind in ('button', 'choice') and not isinstance(pf, PF.OptionlessButtonPDFField):
                dvals = typed_values(fld, hx)
                if kind == 'choice' and isinstance(fld, F.StringField):
                    dvals = [m for m in hx.henum.us_states.__members__]      # the line prints a state code
                for val in dvals:
                    res.evaluations += 1
                    res.count('driving_values_evaluated')
                    try:
                        out = pf.value(val, fld)
                    except PF.PDFInvalidChoiceValue:
                        if kind == 'choice' and val is None:
                            continue
                        V(fname, f'choice-value-rejected|{line}', f'line {line}={val!r} -> {target}: not in the mapping\'s choice list')
                        continue
                    except BaseException as e:  # noqa
                        V(fname, f'value-fn-raises|{line}', f'line {line}={val!r} -> {target}: {type(e).__name__}: {e}')
                        continue
                    if kind == 'button' and out != 'Off' and out not in tf.on_values:
                        V(fname, f'export-value-not-in-template|{line}|{target.split(".")[-1]}', f'line {line}={val!r} -> {target} = {out!r}; the template box exports {tf.on_values}')
                    if kind == 'choice' and tf.options is not None and out not in tf.options:
                        V(fname, f'choice-not-in-template|{line}', f'line {line}={val!r} -> {target} = {out!r}; not among the template\'s options')
            # label
            lab = label_of(tf.speak) if tpl.flavour == 'xfa' else nc_label(target)
            labelled.append((tf.order, tf.page, lab, line, target, pf))
        # Yes / No boxes of one question, recognised by their PLACE in the template (the "No" box sits on the same row just right of
        # the "Yes" box - the N.C. templates carry neither spoken text nor a common name stem for them): one line drives both
        btn = [(pf, tpl.fields.get(pf.pdf_field_name)) for pf in fo.pdf_fields()]
        btn = [(pf, tf) for pf, tf in btn if tf is not None and tf.kind == 'button' and tf.rect is not None]
        for pf, tf in btn:
            if not pf.pdf_field_name.lower().endswith('yes'):
                continue
            right = [(tf2.rect[0] - tf.rect[2], pf2) for pf2, tf2 in btn if pf2.pdf_field_name.lower().endswith('no') and tf2.page_ref == tf.page_ref
                     and abs(tf2.rect[1] - tf.rect[1]) < 3.0 and 0 < tf2.rect[0] - tf.rect[2] < 40.0]
            if not right:
                continue
            pf2 = min(right, key=lambda t_: t_[0])[1]
            res.evaluations += 1
            res.count('yes_no_pairs_by_position')
            res.distinct.add(f'{year}|{fname}|pair|{pf.pdf_field_name.split(".")[-1]}')
            if pf.field_name != pf2.field_name:
                V(fname, f'yes-no-pair-driven-by-different-lines|{pf.pdf_field_name.split(".")[-1]}',
                  f'{pf.pdf_field_name} is filled from line {pf.field_name} but the "No" box next to it on the same row ({pf2.pdf_field_name}) from line {pf2.field_name}')
        # exclusive groups driven by one line: at most one on for every value
        groups = {}
        for pf in fo.pdf_fields():
            tf = tpl.fields.get(pf.pdf_field_name)
            if tf is None or tf.kind != 'button':
                continue
            g = tf.group or nc_group(pf.pdf_field_name)
            if g:
                groups.setdefault(g, []).append(pf)
        for g, pfs in groups.items():
            lines = {p.field_name for p in pfs}
            if len(pfs) < 2:
                continue
            res.count('exclusive_groups')
            flds = []
            for ln in sorted(lines):
                q = ln if '.' in ln else f'{fo.name()}.{ln}'
                fld = fields.get(q)
                flds.append((ln, fld))
            if len(lines) == 1 and flds[0][1] is not None:
                for val in typed_values(flds[0][1], hx):
                    on = []
                    for p in pfs:
                        try:
                            if p.value(val, flds[0][1]) != 'Off':
                                on.append(p.pdf_field_name.split('.')[-1])
                        except BaseException:
                            pass
                    res.evaluations += 1
                    res.count('group_valuations')
                    if len(on) > 1:
                        V(fname, f'exclusive-group-two-on|{flds[0][0]}', f'{g}: with line {flds[0][0]}={val!r} the boxes {on} are on together')
            else:
                res.count('groups_driven_by_several_lines')
                res.add('multi_line_groups', f'{year}|{fname}|{g}')
        # a number printed across two boxes (whole part | decimals, e.g. the ratio on Form 8606 line 10): for every value of
        # the line the two boxes together read as the line's value rounded to the number of decimals printed
        bytext = {}
        for pf in fo.pdf_fields():
            if isinstance(pf, PF.TextPDFField) and '.' not in pf.field_name:
                bytext.setdefault(pf.field_name, []).append(pf)
        for line, pfs in bytext.items():
            fld = fields.get(f'{fo.name()}.{line}')
            if len(pfs) != 2 or not isinstance(fld, F.FloatField) or getattr(fld, '_places', 2) <= 2:
                continue
            order = sorted(pfs, key=lambda q: tpl.fields[q.pdf_field_name].order if q.pdf_field_name in tpl.fields else 0)
            for v in (0.0, 0.0004, 0.0005, 0.33333, 0.5, 0.92857, 0.9994, 0.9995, 0.99969, 0.99999, 1.0):
                try:
                    a, b = order[0].value(v, fld), order[1].value(v, fld)
                except Exception as e:  # noqa
                    V(fname, f'split-number-raises|{line}', f'line {line} = {v}: printing raised {type(e).__name__}: {e}')
                    break
                res.count('split_number_checks')
                if not (str(a).isdigit() and str(b).isdigit()):
                    break
                want = f'{v:.{len(str(b))}f}'
                if f'{a}.{b}' != want:
                    V(fname, f'split-number-boxes-disagree|{line}', f'line {line} = {v} is printed as {a!r} | {b!r} (reads {a}.{b}); rounded to {len(str(b))} decimals it is {want}')
                    break
        # label check.  A template label is trusted only if it fits the template's own
        # reading order: it must belong to the longest non-decreasing subsequence of
        # the labels of its page (the IRS accessibility text has typos of its own).
        bypage = {}
        for item in sorted(labelled, key=lambda x: x[0]):
            bypage.setdefault(item[1], []).append(item)
        for page, items in bypage.items():
            labs = [(_labkey(it[2]) if it[2] else None) for it in items]
            idx = [k for k, l in enumerate(labs) if l is not None]
            trusted = set(_lnds([labs[k] for k in idx], idx))
            for k, (order, pg, lab, line, target, pf) in enumerate(items):
                base = line.split('.')[-1]
                want = LABEL_ALIASES.get((fname, base))
                if want is None:
                    n = norm_line(base) if '.' not in line else None
                    want = {n} if n else None
                if lab is None or want is None:
                    res.count('mappings_unlabelled')
                    continue
                if k not in trusted:
                    res.count('template_labels_out_of_order_ignored')
                    res.add('ignored_template_labels', f'{year}|{fname}|{target.split(".")[-1]}|{lab}')
                    continue
                res.count('mappings_label_checked')
                ok = lab in want or any(lab.isdigit() and w[:-1] == lab and w[-1].isalpha() for w in want)
                if not ok:
                    V(fname, f'label-mismatch|{base}', f'line {line} is written into {target.split(".")[-1]}, which the template labels line {lab} ("{tpl.fields[target].speak[:70]}")')
    # --- at the pdftk boundary: synthetic fills populating every mapped line
    for variant in (0, 1):
        cp = configparser.ConfigParser()
        for fo in forms:
            if fo.name().split(':')[0] in ('1040_s2',):
                continue
            cp.add_section(fo.name())
            for fld in fo.fields():
                vals = typed_values(fld, hx)
                val = vals[variant % len(vals)]
                if fld.name() in ('1040.itemizing',):
                    val = True
                if fld.name().endswith('nc_d-400_sa.10'):
                    val = 99999.0
                if isinstance(fld, F.StringField):
                    val = 'T' if variant == 0 else ''
                cp.set(fo.name(), fld.base_name(), fld.to_string(val).replace('%', '%%'))
        r = pdfdrive.fill(cp, year)
        res.evaluations += 1
        res.count('fills')
        if r.exc is not None and not isinstance(r.exc, (PF.PDFValueTooLong, PF.PDFInvalidChoiceValue)):
            V('*', 'synthetic-fill-raises', f'filling a synthetic solution raised {type(r.exc).__name__}: {r.exc}')
        for call in r.calls:
            if call['op'] != 'fill_form':
                continue
            tplpath = call['argv'][0]
            tpl = pdfspec.parse(tplpath)
            try:
                pairs = pdfdrive.parse_fdf(call['fdf_bytes'])
            except pdfdrive.FDFSyntaxError as e:
                V(os.path.basename(tplpath), 'fdf-syntax', str(e))
                continue
            names = [t for t, v in pairs]
            for t, v in pairs:
                res.count('fdf_entries_joined')
                tf = tpl.fields.get(t)
                if tf is None:
                    V(os.path.basename(tplpath), f'fdf-field-not-in-template|{t.split(".")[-1]}', f'FDF entry {t!r} is not a field of {os.path.basename(tplpath)}')
                    continue
                if tf.kind == 'button' and v not in tf.on_values + ['Off', '']:
                    V(os.path.basename(tplpath), f'fdf-export-value|{t.split(".")[-1]}', f'FDF sets {t} to {v!r}; template exports {tf.on_values}')
                if tf.kind == 'text' and tf.max_len is not None and len(v) > tf.max_len:
                    V(os.path.basename(tplpath), f'fdf-too-long|{t.split(".")[-1]}', f'FDF writes {len(v)} characters into {t} (limit {tf.max_len})')
            dup = {n for n in names if names.count(n) > 1}
            if dup:
                V(os.path.basename(tplpath), 'fdf-duplicate-entry', f'FDF has several entries for {sorted(dup)[:3]}')
            # exclusive groups in what was actually sent
            on = {}
            for t, v in pairs:
                tf = tpl.fields.get(t)
                if tf is not None and tf.kind == 'button' and v != 'Off':
                    g = tf.group or nc_group(t)
                    if g:
                        on.setdefault(g, []).append(t)
            res.count('fdf_groups_checked', len(on))
            if variant == 0 and len(res.samples) < 3:
                res.sample({'template': os.path.basename(tplpath), 'fdf_entries': len(pairs), 'first': pairs[:3]})
    return res


def _labkey(lab):
    m = re.match(r'(\d+)([a-z]?)', lab)
    return (int(m.group(1)), m.group(2))


def _lnds(keys, idx):
    """indices (from idx) of one longest non-decreasing subsequence of keys"""
    n = len(keys)
    if n == 0:
        return []
    best = [1] * n
    prev = [-1] * n
    for i in range(n):
        for j in range(i):
            if keys[j] <= keys[i] and best[j] + 1 > best[i]:
                best[i] = best[j] + 1
                prev[i] = j
    i = max(range(n), key=lambda k: best[k])
    out = []
    while i >= 0:
        out.append(idx[i])
        i = prev[i]
    return out


def nc_label(target):
    m = re.search(r'_li(\d+[a-z]?)(?:_|$)', target)
    return m.group(1) if m else None


def nc_group(target):
    m = re.match(r'^(.*?)(yes|no)$', target)
    if m:
        return m.group(1) + '?'
    m = re.match(r'^(.*_fstat)\d$', target)
    if m:
        return m.group(1)
    return None


def finalize(res, tier):
    c = res.counters
    if c.get('mappings', 0) < 1600:
        res.inconclusive.append(f'only {c.get("mappings", 0)} mappings observed')
    if c.get('real_groups_checked', 0) < 20:
        res.inconclusive.append(f'only {c.get("real_groups_checked", 0)} exclusive groups seen in fills of real returns')
    if c.get('fdf_entries_joined', 0) < 1600:
        res.inconclusive.append(f'only {c.get("fdf_entries_joined", 0)} FDF entries observed at the pdftk boundary')
    return {'exhaustive': True, 'label_share': f'{c.get("mappings_label_checked", 0)} label-checked / {c.get("mappings_unlabelled", 0)} unlabelled / {c.get("template_labels_out_of_order_ignored", 0)} template labels ignored'}
