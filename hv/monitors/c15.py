"""C15 - a solved return balances and has no impossible negative amounts.
Invariant monitor evaluated on the typed solution of every solved explored
return (non-negative input amounts by construction of the personas)."""
import fnmatch

from hv.common import Result

ID = 'C15'
LEVEL = 'exploration'
RULE = ('one evaluation = one solved return checked; distinct_nontrivial = distinct (year, balance branch) cells: refund / amount owed / '
        'exact zero, NC refund / NC due, plus distinct non-negative lines observed with a strictly positive value')
ASSUMPTIONS = [
    'personas supply only non-negative amounts',
    'NONNEG lists lines the forms define as non-negative (wording "if zero or less, enter 0" / "smaller of"; deductions, taxable income, taxes, credits, payments, refund, amount owed)',
]

# form -> line patterns that must be >= 0 (fnmatch on the line name)
NONNEG = {
    '1040': ['1[a-z]', '2[ab]', '3[ab]', '4[ab]', '5[ab]', '6[ab]', '12', '12[abc]', '13', '14', '15', '16', '17', '18', '19', '2[0-9]', '25[abcd]', '3[0-8]', '35a'],
    '1040_sa': ['1', '4', '5[a-e]', '6', '7', '8[a-e]', '9', '1[0-7]'],
    '1040_sb': ['2', '4', '6', '1_amount_*', '5_amount_*'],
    '1040_s3': ['[1-8]', '5[ab]', '6[a-z]'],
    '1040_s8812': ['5', '7', '8', '1[0-2]', '14', '14[a-i]', '16a', '16b', '17', '27', '4', '4[abc]', '6', '5_ws_*', 'nonrefundable_ctc_or_odc', 'refundable_ctc_or_additional_ctc', 'additional_tax'],
    '1040_qualdiv_capgain_tax_wkst': ['[1-9]', '1[0-9]', '2[0-5]'],
    '1040_s2_need_6251': ['6', '8', '9', '10'],
    '1040_recovery_rebate_credit_wkst': ['*'],
    '8889': ['2', '3', '4', '5', '6', '7', '8', '9', '1[0-3]', 'hsa_deduction'],
    # not line 14 (remaining basis = line 3 - line 13): the form does not floor it, and with the ratio on line 10 rounded to five places
    # line 13 can exceed line 3 by a few cents on the unchanged tree (conversions of the whole balance)
    '8606': ['[1-9]', '1[0-3]', '1[5-7]', '15[abc]', '19', '2[0-3]', 'taxable_amount'],
    '8959': ['[1-9]', '1[0-9]', '2[0-4]'],
    '8995': ['[4-9]', '10', '1[2-5]'],      # not line 11: 'taxable income before the QBI deduction' is AGI minus deductions, which the form does not floor
    'nc_d-400': ['10a', '10b', '11', '12a', '15', '16', '17', '18', '19', '20[ab]', '21[abcd]', '22', '23', '24', '25', '26[a-e]', '27', '28', '29', '3[0-4]'],
    'nc_d-400_sa': ['*'],
    'nc_d-400_child_deduction_wkst': ['[3-5]'],
    'nc_d-400_consumer_use_tax_wkst': ['*'],
    'nc_d-400_ss': ['*'],
}
NONNEG_EXCLUDE = {('1040_recovery_rebate_credit_wkst', '1'), ('nc_d-400_sa', 'last_name'), ('nc_d-400_sa', 'ssn'), ('nc_d-400_ss', 'last_name'), ('nc_d-400_ss', 'ssn')}


def plan(tier, seed):
    from hv import scen
    n = 8 if tier == 'quick' else 800
    sp = []
    for y in (2021, 2022, 2023):
        for g in ([scen.FAMILIES[0:4], scen.FAMILIES[4:8], scen.FAMILIES[8:12]] if tier == 'quick' else [[f] for f in scen.FAMILIES]):
            sp.append({'year': y, 'families': g, 'n': n})
        sp.append({'year': y, 'directed': True, 'n': 3 if tier == 'quick' else 60})
    return sp


def check_solution(res, year, sol, label, rp):
    """sol: {key: typed value}"""
    def g(k, d=0.0):
        v = sol.get(k, d)
        return v if isinstance(v, (int, float)) and not isinstance(v, bool) else d

    def V(kind, line, msg):
        res.violation(f'C15|{year}|{kind}|{line}', f'{label}: {msg}', rp)
    # ---- federal balance
    if '1040.33' in sol and '1040.24' in sol:
        res.count('federal_balances_checked')
        l34, l37, l33, l24, l35a, l36 = g('1040.34'), g('1040.37'), g('1040.33'), g('1040.24'), g('1040.35a'), g('1040.36')
        if abs((l34 - l37) - (l33 - l24)) > 0.011:
            V('federal-balance', '1040.34-37', f'overpayment {l34} - owed {l37} != payments {l33} - tax {l24}')
        if l34 > 0 and l37 > 0:
            V('refund-and-owed', '1040.34+37', f'both overpayment {l34} and amount owed {l37} are positive')
        if l34 > 0.001 and abs((l35a + l36) - l34) > 0.011:
            V('refund-split', '1040.35a+36', f'refund {l35a} + applied {l36} != overpayment {l34}')
        res.distinct.add(f'{year}|fed|' + ('refund' if l34 > 0 else 'owed' if l37 > 0 else 'zero'))
    # ---- NC balance
    if 'nc_d-400.19' in sol and 'nc_d-400.25' in sol:
        res.count('nc_balances_checked')
        l19, l25 = g('nc_d-400.19'), g('nc_d-400.25')
        if l19 <= l25:
            if 'nc_d-400.28' in sol and abs(g('nc_d-400.28') - (l25 - l19)) > 0.51:
                V('nc-balance', 'nc_d-400.28', f'overpayment {g("nc_d-400.28")} != payments {l25} - tax {l19}')
            if 'nc_d-400.34' in sol and abs(g('nc_d-400.34') + g('nc_d-400.33') - g('nc_d-400.28')) > 0.51:
                V('nc-refund-split', 'nc_d-400.34', f'refund {g("nc_d-400.34")} + contributions {g("nc_d-400.33")} != overpayment {g("nc_d-400.28")}')
            if g('nc_d-400.refund') < -0.001:
                V('nc-refund-sign', 'nc_d-400.refund', f'refund line {g("nc_d-400.refund")} negative although payments cover the tax')
            if 'nc_d-400.26a' in sol and g('nc_d-400.26a') > 0:
                V('nc-refund-and-due', 'nc_d-400.26a', 'tax due filled in although payments cover the tax')
            res.distinct.add(f'{year}|nc|refund')
        else:
            if 'nc_d-400.26a' in sol and abs(g('nc_d-400.26a') - (l19 - l25)) > 0.51:
                V('nc-balance', 'nc_d-400.26a', f'tax due {g("nc_d-400.26a")} != tax {l19} - payments {l25}')
            if 'nc_d-400.27' in sol and abs(g('nc_d-400.27') - (g('nc_d-400.26a') + g('nc_d-400.26d') + g('nc_d-400.26e'))) > 0.51:
                V('nc-due-total', 'nc_d-400.27', 'line 27 != 26a + 26d + 26e')
            if 'nc_d-400.28' in sol and g('nc_d-400.28') > 0:
                V('nc-refund-and-due', 'nc_d-400.28', 'overpayment filled in although tax exceeds payments')
            if g('nc_d-400.refund') > 0.001:
                V('nc-refund-sign', 'nc_d-400.refund', f'refund line {g("nc_d-400.refund")} positive although tax exceeds payments')
            res.distinct.add(f'{year}|nc|due')
    # ---- non-negative lines
    for key, val in sol.items():
        if isinstance(val, bool) or not isinstance(val, (int, float)):
            continue
        full, line = key.split('.', 1)
        base = full.split(':')[0]
        pats = NONNEG.get(base)
        if not pats or (base, line) in NONNEG_EXCLUDE:
            continue
        if any(fnmatch.fnmatchcase(line, p) for p in pats):
            res.count('nonneg_checks')
            if val > 0:
                res.distinct.add(f'{year}|pos|{base}.{line}')
            if val < -1e-9:
                mech = ''
                if (base, line) in (('1040_s8812', '14'), ('1040_s8812', '13'), ('1040', '19'), ('1040_s8812', 'nonrefundable_ctc_or_odc'), ('1040_s8812', '14c'), ('1040_s8812', '14d'), ('1040_s8812', '14h')) \
                        and g('1040_s3.1') > g('1040.18') + 0.005:
                    mech = '|ftc-exceeds-tax'      # mechanism: foreign tax credit larger than the tax (known finding)
                V('negative', f'{base}.{line}{mech}', f'{key} = {val} is negative' + (f' (Schedule 3 line 1 = {g("1040_s3.1")} exceeds the tax on line 18 = {g("1040.18")})' if mech else ''))
    # allowed ratio
    for who in ('you', 'spouse'):
        k = f'8606:{who}.10'
        if k in sol:
            res.count('ratio_checks')
            if not (0.0 <= sol[k] <= 1.0):
                V('ratio-out-of-range', '8606.10', f'{k} = {sol[k]}')


def run_shard(spec, tier, seed):
    from hv import scen, drive, realwork
    res = Result()
    year = spec['year']
    todo = scen.directed_personas(year, seed, spec['n']) if spec.get('directed') else [(fam, p) for fam in spec['families'] for p in scen.personas(seed, year, fam, spec['n'])]
    for fam, p in todo:
        if True:
            out = scen.solve_persona(p)
            res.count('solves')
            if out.exc is not None or out.ret is not True:
                res.count('unsolved_skipped')
                continue
            res.evaluations += 1
            sol = scen.typed_solution(out)
            check_solution(res, year, sol, f'{year} {fam} {p.key}', realwork.replay_of(p, 'base', spec))
            # N.C. page 2 against what the filer designates (the four amounts of lines 29-32 are the filer's own answers: a total that
            # leaves one out still balances against itself, so the refund is compared with the overpayment less the answers)
            rc_ = float((getattr(p, 'ncv', None) or {}).get('refund_contrib', 0) or 0)
            if rc_ > 0 and 'nc_d-400.34' in sol and 'nc_d-400.28' in sol and sol['nc_d-400.28'] - 4 * rc_ >= 1:
                res.count('nc_designations_checked')
                if abs(sol['nc_d-400.34'] + 4 * rc_ - sol['nc_d-400.28']) > 0.51:
                    res.violation(f'C15|{year}|nc-designations|nc_d-400.34', f'{year} {fam} {p.key}: N.C. refund {sol["nc_d-400.34"]} + the four designated amounts of {rc_} each != overpayment {sol["nc_d-400.28"]} (line 33 = {sol.get("nc_d-400.33")})', realwork.replay_of(p, 'base', spec))
            if len(res.samples) < 1:
                res.sample({'persona': p.describe(), 'lines': {k: sol[k] for k in ('1040.24', '1040.33', '1040.34', '1040.35a', '1040.36', '1040.37') if k in sol}})
            # the same return with the withholding moved so that payments and tax differ by less than a dollar, a cent, nothing,
            # a dollar - with part of the refund applied to next year's estimated tax (and the same around the N.C. balance)
            ans = dict(p.answers)
            if 'w-2:0.box_2' in ans and '1040.24' in sol and '1040.33' in sol and (spec.get('directed') or (res.evaluations % 3 == 0)):
                for delta, apply_ in ((0.5, 0.2), (0.01, 0.0), (0.99, 0.5), (1.0, 0.4), (0.0, 0.0), (-0.5, 0.0), (-0.01, 0.0), (37.25, 50.0), (37.75, 50.0), (0.6, 5.0), (1777.9, 1777.9), (1777.9, 1777.5)):
                    new_wh = float(ans['w-2:0.box_2'] or 0) + (sol['1040.24'] - sol['1040.33']) + delta
                    if new_wh < 0:
                        continue
                    ov = dict(ans, **{'w-2:0.box_2': f'{new_wh:.2f}', '1040.apply_to_estimated_tax': f'{apply_:.2f}'})
                    q = scen.Persona(year, p.family, p.key, overrides=ov)
                    q.nc = p.nc
                    o2 = scen.solve_persona(q, forms=p.forms())
                    res.count('solves')
                    if o2.exc is not None or o2.ret is not True:
                        continue
                    res.evaluations += 1
                    res.count('tiny_balance_returns')
                    check_solution(res, year, scen.typed_solution(o2), f'{year} {fam} {p.key} [payments - tax = {delta}]', dict(realwork.replay_of(p, f'tiny-balance:{delta}', spec), overrides={'w-2:0.box_2': ov['w-2:0.box_2'], '1040.apply_to_estimated_tax': ov['1040.apply_to_estimated_tax']}))
    return res


def finalize(res, tier):
    c = res.counters
    if c.get('federal_balances_checked', 0) < 100:
        res.inconclusive.append(f'only {c.get("federal_balances_checked", 0)} federal balances checked')
    if c.get('nc_balances_checked', 0) < 10:
        res.inconclusive.append(f'only {c.get("nc_balances_checked", 0)} NC balances checked')
    need = {f'{y}|fed|{b}' for y in (2021, 2022, 2023) for b in ('refund', 'owed')}
    missing = need - res.distinct
    if missing:
        res.inconclusive.append(f'balance branches never observed: {sorted(missing)}')
    return {'positive_nonneg_lines_observed': len([d for d in res.distinct if '|pos|' in d])}
