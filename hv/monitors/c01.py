"""C01 - no silent success.  Verdict-vs-trace checker over generated form
programs (with the reference interpreter) and over real returns."""
from hv.common import Result
from hv import progwork, oracles, progen, drive, trace

ID = 'C01'
LEVEL = 'exploration'
RULE = ('one evaluation = one traced solve (generated program x input assignment x schedule, or real return x fault); '
        'non-trivial = at least one line waited, was unimplemented, or the solve failed/aborted; distinct = distinct '
        '(verdict, attempt-outcome multiset, prompt count, program shape) signatures')
ASSUMPTIONS = [
    'wrappers on ValueStore/InputStore/Field.value/Field.not_implemented observe every read, store and not-implemented signal',
    'the reference interpreter (hv/progen.reference) is the intended semantics of generated programs',
]


def plan(tier, seed):
    sp = progwork.shards(tier, 3000, 200000)
    from hv import realwork
    sp += realwork.shards('C01', tier)
    sp += [{'kind': 'cli', 'year': y, 'n': 8 if tier == 'quick' else 400} for y in (2021, 2022, 2023)]
    return sp


def run_cli(spec, tier, seed):
    """CLI layer: what `habutax solve` prints must agree with what the trace of the
    same file shows: 'Successfully solved!' only with nothing unimplemented,
    missing or blocked; a failed run names every unimplemented line, every missing
    input and the lines blocked behind them."""
    import os
    import re
    import tempfile
    from hv import scen, realwork, cli, hx
    from hv.common import rng_for
    from hv.monitors.c20 import write_ini
    res = Result()
    year = spec['year']
    rng = rng_for('C01cli', seed, spec)
    tmp = tempfile.mkdtemp(prefix='hv_c01_')
    try:
        for k in range(spec['n']):
            fam = rng.choice(scen.FAMILIES)
            p = scen.Persona(year, fam, f'c01cli:{seed}:{k}')
            out0 = scen.solve_persona(p)
            ans = dict(p.answers)
            variants = [('full', ans)]
            keys = sorted(ans)
            if keys:
                drop = rng.sample(keys, min(len(keys), rng.randint(1, 4)))
                variants.append(('missing', {q: v for q, v in ans.items() if q not in drop}))
                gates = [q for q in keys if ans[q] == 'no']
                picks = rng.sample(gates, min(3, len(gates))) + [q for q in ('1040.digital_assets', '1040.virtual_currency') if q in ans]
                for g in picks:       # the last ones drive a line nothing else reads (an unimplemented leaf)
                    variants.append(('flip', dict(ans, **{g: 'yes'})))
                for g in picks[-2:]:  # several reasons at once: something unimplemented AND inputs missing
                    variants.append(('missing+flip', {q: v for q, v in dict(ans, **{g: 'yes'}).items() if q not in drop}))
            for name, amap in variants:
                path = os.path.join(tmp, 'in.ini')
                write_ini(path, amap)
                args = ['solve', path, '--year', str(year)]
                # every other filer also names a statement form of its own after the return (several --form options, the last
                # of which does not lead back to Form 1040)
                req = list(p.forms()) + (['w-2:0'] if k % 2 == 0 else [])
                for f in req:
                    args += ['--form', f]
                if (k + len(name)) % 2 == 1:
                    # the report is due whether the solution goes to the terminal or to a file
                    args += ['--solution', os.path.join(tmp, 'sol.ini')]
                    res.count('cli_runs_with_solution_file')
                r = cli.run_cli(args)
                q = scen.Persona(year, fam, p.key)
                q.nc = p.nc
                o2, tv2, _ = realwork.traced(q, file_map=dict(amap), refuse_from=0, forms=req)
                res.evaluations += 1
                res.count('cli_runs')
                rp = {'engine': 'cli', 'persona': p.describe(), 'variant': name, 'shard': spec}
                said_ok = 'Successfully solved!' in r.stdout
                said_fail = 'Failed to solve' in r.stdout
                res.count('cli_' + ('abort' if r.exc is not None else 'solved' if said_ok else 'failed'))
                if (r.exc is not None) != (o2.exc is not None):
                    res.violation('C01|cli|abort-disagrees', f'{year} {fam} [{name}]: CLI {"raised " + type(r.exc).__name__ if r.exc else "finished"} but the same file in-process {"raised " + type(o2.exc).__name__ if o2.exc else "finished"}', rp)
                    continue
                if r.exc is not None:
                    continue
                U = set(tv2.unimpl)
                Mi = {a[-1][1] for l, a in tv2.attempts.items() if a[-1][0] == 'missing_input'}
                Bl = {l for l, a in tv2.attempts.items() if a[-1][0] == 'unmet_line'}
                clean = not U and not Mi and not Bl
                res.distinct.add(f'cli|{year}|{name}|{said_ok}|{bool(U)}|{bool(Mi)}|{bool(Bl)}')
                if said_ok and not clean:
                    res.violation('C01|cli|says-solved-but-skipped', f'{year} {fam} [{name}]: the CLI printed "Successfully solved!" although unimplemented={sorted(U)[:3]} missing={sorted(Mi)[:3]} blocked={sorted(Bl)[:3]}', rp)
                if said_ok == said_fail:
                    res.violation('C01|cli|no-verdict-printed', f'{year} {fam} [{name}]: stdout has neither/both verdict lines', rp)
                if said_fail:
                    listed_unimpl = set(re.findall(r'(?m)^- (\S+)$', r.stdout))
                    listed_dep = set(re.findall(r'(?m)^(\S+) \(needed by: ', r.stdout))
                    if not U <= listed_unimpl:
                        res.violation('C01|cli|failure-omits-unimplemented', f'{year} {fam} [{name}]: the failure report omits unimplemented lines {sorted(U - listed_unimpl)[:3]}', rp)
                    if not Mi <= listed_dep:
                        res.violation('C01|cli|failure-omits-missing-input', f'{year} {fam} [{name}]: the failure report omits missing inputs {sorted(Mi - listed_dep)[:3]}', rp)
                    deps = {a[-1][1] for l, a in tv2.attempts.items() if a[-1][0] == 'unmet_line'}
                    if not deps <= listed_dep:
                        res.violation('C01|cli|failure-omits-blocked', f'{year} {fam} [{name}]: the failure report omits the lines others are blocked behind {sorted(deps - listed_dep)[:3]}', rp)
                if len(res.samples) < 1 and said_fail:
                    res.sample({'persona': p.describe(), 'variant': name, 'stdout_head': r.stdout[:400]})
                if name.startswith('missing') and (Mi or Bl):
                    # the same file with --prompt-missing and a user who declines every question (Ctrl-C):
                    # what was needed is still missing, so the command may not claim success
                    def decline(prompt):
                        raise KeyboardInterrupt()
                    r3 = cli.run_cli(args + ['--prompt-missing'], input_fn=decline)
                    res.evaluations += 1
                    res.count('cli_runs_declining_user')
                    if r3.exc is None and 'Successfully solved!' in r3.stdout:
                        res.violation('C01|cli|says-solved-after-declined-question', f'{year} {fam} [{name}]: the user declined every question (Ctrl-C) for the missing inputs {sorted(Mi)[:3]}, '
                                      'yet the CLI printed "Successfully solved!"', rp)
    finally:
        import shutil
        shutil.rmtree(tmp, ignore_errors=True)
    return res


def run_shard(spec, tier, seed):
    if spec['kind'] == 'cli':
        return run_cli(spec, tier, seed)
    if spec['kind'] == 'real':
        from hv import realwork
        return realwork.run_shard('C01', spec, tier, seed)
    res = Result()
    for label, prog in progwork.programs(spec, seed):
        seeds = [None, 1] if spec['part'] != 'small' else [None]
        for ss in seeds:
            out, tv, t = progwork.traced_run(prog, schedule_seed=ss)
            res.evaluations += 1
            for k, n in tv.counts().items():
                res.count('ev_' + k, n)
            res.count('verdict_' + drive.verdict_class(out).split(':')[0])
            if progwork.nontrivial(tv) or out.ret is not True:
                res.distinct.add(progwork.shape_sig(prog, out, tv))
            ref = progen.reference(prog, out.final_inputs)
            res.count('oracle_evaluations')
            for suffix, msg in oracles.c01(out, tv) + oracles.c01_vs_reference(out, ref):
                res.violation(f'C01|prog|{suffix}', f'{label}: {msg}', progwork.prog_replay(label, prog, ss, {'shard': spec}))
            if res.evaluations <= 2:
                res.sample({'label': label, 'verdict': drive.verdict_class(out), 'request': prog['request'],
                            'file': prog['file'], 'answers': prog['answers'],
                            'forms': [{'name': f['name'], 'lines': [[l['name'], l['required'], l['body']] for l in f.get('lines', [])]} for f in prog['forms']]})
    return res


def finalize(res, tier):
    c = res.counters
    for k in ('verdict_solved', 'verdict_failed', 'verdict_abort'):
        if c.get(k, 0) < 20:
            res.inconclusive.append(f'too few executions with {k}: {c.get(k, 0)}')
    if c.get('cli_failed', 0) < 5 or c.get('cli_solved', 0) < 5:
        res.inconclusive.append('CLI layer: too few solved/failed runs')
    if c.get('ev_UNIMPL', 0) < 20 or c.get('ev_PROMPT', 0) < 20:
        res.inconclusive.append('too few unimplemented/prompt events observed')
    return {}
