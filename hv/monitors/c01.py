"""C01 - no silent success.  Verdict-vs-trace checker over generated form
programs (with the reference interpreter) and over real returns."""
from hv.common import Result
from hv import progwork, oracles, progen, drive, trace

ID = 'C01'
LEVEL = 'exploration'
RULE = ('one evaluation = one traced solve (generated program x input assignment x schedule, or real return x fault); '
        'non-trivial = at least one line waited, was unimplemented, or the solve failed/aborted; distinct = distinct '
        '(verdict, attempt-outcome multiset, prompt count, program shape) signatures')
ASSUMPTIONS = [
    'wrappers on ValueStore/InputStore/Field.value/Field.not_implemented observe every read, store and not-implemented signal',
    'the reference interpreter (hv/progen.reference) is the intended semantics of generated programs',
]


def plan(tier, seed):
    sp = progwork.shards(tier, 3000, 60000)
    from hv import realwork
    sp += realwork.shards('C01', tier)
    return sp


def run_shard(spec, tier, seed):
    if spec['kind'] == 'real':
        from hv import realwork
        return realwork.run_shard('C01', spec, tier, seed)
    res = Result()
    for label, prog in progwork.programs(spec, seed):
        seeds = [None, 1] if spec['part'] != 'small' else [None]
        for ss in seeds:
            out, tv, t = progwork.traced_run(prog, schedule_seed=ss)
            res.evaluations += 1
            for k, n in tv.counts().items():
                res.count('ev_' + k, n)
            res.count('verdict_' + drive.verdict_class(out).split(':')[0])
            if progwork.nontrivial(tv) or out.ret is not True:
                res.distinct.add(progwork.shape_sig(prog, out, tv))
            ref = progen.reference(prog, out.final_inputs)
            res.count('oracle_evaluations')
            for suffix, msg in oracles.c01(out, tv) + oracles.c01_vs_reference(out, ref):
                res.violation(f'C01|prog|{suffix}', f'{label}: {msg}', progwork.prog_replay(label, prog, ss, {'shard': spec}))
            if res.evaluations <= 2:
                res.sample({'label': label, 'verdict': drive.verdict_class(out), 'request': prog['request'],
                            'file': prog['file'], 'answers': prog['answers'],
                            'forms': [{'name': f['name'], 'lines': [[l['name'], l['required'], l['body']] for l in f.get('lines', [])]} for f in prog['forms']]})
    return res


def finalize(res, tier):
    c = res.counters
    for k in ('verdict_solved', 'verdict_failed', 'verdict_abort'):
        if c.get(k, 0) < 20:
            res.inconclusive.append(f'too few executions with {k}: {c.get(k, 0)}')
    if c.get('ev_UNIMPL', 0) < 20 or c.get('ev_PROMPT', 0) < 20:
        res.inconclusive.append('too few unimplemented/prompt events observed')
    return {}
