"""C14 - a written solution reads back to exactly the values that were solved.
The typed values the PDF filler loads from the written solution file (observed
on its value store while `habutax fill-pdfs` runs against the stand-in pdftk)
are compared with the values the solve stored."""
import configparser
import io
import math
import os
import tempfile

from hv.common import Result, rng_for

ID = 'C14'
LEVEL = 'exploration'
RULE = ('one evaluation = one solve -> write -> read-back history; generated part enumerates a closed list of value classes for every line type '
        '(all decimal-place settings; negative, zero, -0.0, huge, tiny; every enumeration member and the empty choice; multi-word, multi-line, '
        'comment-like and %-carrying text); distinct_nontrivial = distinct (line type, value class) pairs + distinct (year, form) sections read back')
ASSUMPTIONS = [
    'equality: numbers and booleans exactly, enumerations by member, blank as blank, text up to surrounding whitespace',
    'the solution file is written with ConfigParser.write exactly as `habutax solve --solution` does, plus the [habutax] section',
]

FLOATS = [0.0, -0.0, 1.0, -1.5, 0.005, 2.675, 1e15, 1e-7, 123456789.125, -0.004, 99999.995, 1234.5, 5e-05, -3e-05, 0.00012, 0.49999]
INTS = [0, -1, 7, 10 ** 30]
TEXTS = {
    'plain': 'plain', 'two-words': 'two  words', 'tab': 'tab\there', 'leading-space': '  lead', 'trailing-space': 'trail  ',
    'multi-line': 'line one\nline two', 'multi-line-blank': 'line one\n\nline three', 'multi-line-hash': 'line one\n#hash line',
    'multi-line-semicolon': 'line one\n;semi line', 'starts-hash': '#starts with hash', 'starts-semicolon': ';starts with semicolon',
    'percent-sign': '50% owner', 'percent-paren': '%(x)s', 'equals': 'a=b', 'colon': 'a: b', 'brackets': '[x]', 'empty': '', 'upper': 'UPPER Case',
    'non-ascii': 'Zoë Müller', 'beyond-latin-1': 'Dvořák – Nguyễn’s', 'cjk': '東京 1-2', 'quote': 'say "hi"', 'long': 'x' * 400, 'inline-hash': 'apt #4', 'inline-semicolon': 'a ; b',
    'wrapped-in-quotes': '"Smith"', 'quotes-both-ends': '"A" and "B"', 'single-quotes': "'x'", 'parens': '(x)', 'braces': '{x}', 'backslash': 'a\\b', 'backslash-n': 'a\\nb',
    'looks-like-number': '007', 'looks-like-bool': 'yes', 'looks-like-none': 'None', 'only-quotes': '""', 'dollar': '$5', 'section-like': '[1040]',
}


def plan(tier, seed):
    n = 6 if tier == 'quick' else 300
    fams = ['F0', 'F1', 'F2', 'F3', 'F4', 'F5', 'F6', 'F8', 'F9', 'F10']
    sp = [{'kind': 'generated'}]
    for y in (2021, 2022, 2023):
        for g in (fams[:5], fams[5:]):
            sp.append({'kind': 'returns', 'year': y, 'families': g, 'n': n})
        sp.append({'kind': 'year', 'year': y})
    return sp


def same(a, b):
    if isinstance(a, str) and isinstance(b, str):
        return a.strip() == b.strip()
    if isinstance(a, float) and isinstance(b, float):
        return a == b or (math.isnan(a) and math.isnan(b))
    return type(a) is type(b) and a == b


def write_and_fill(out, year, hx, pdfdrive, tmp):
    """exactly what the CLI does: solution() + [habutax] -> file; then fill-pdfs
    on the file.  Returns (values loaded by the filler, error)."""
    from hv import cli
    sol = out.solver.solution()
    sol['habutax'] = {'tax_year': year, 'version': hx.habutax.__version__}
    path = os.path.join(tmp, 'solution.ini')
    with open(path, 'w') as f:
        sol.write(f)
    loaded = {}
    VS = hx.values.ValueStore
    orig = VS.__setitem__

    def rec(self, key, value):
        loaded[key] = value
        return orig(self, key, value)
    saved_path = os.environ.get('PATH', '')
    os.environ['PATH'] = pdfdrive.FAKE_DIR + os.pathsep + saved_path
    os.environ['HV_PDFTK_LOG'] = os.path.join(tmp, 'log')
    VS.__setitem__ = rec
    try:
        r = cli.run_cli(['fill-pdfs', path, os.path.join(tmp, 'out.pdf')])
    finally:
        VS.__setitem__ = orig
        os.environ['PATH'] = saved_path
        os.environ.pop('HV_PDFTK_LOG', None)
    return loaded, r, path


def run_shard(spec, tier, seed):
    from hv import hx, scen, realwork, pdfdrive, trace, drive, progen
    res = Result()
    if spec['kind'] == 'returns':
        year = spec['year']
        for fam in spec['families']:
            for jn, p in enumerate(scen.personas(seed, year, fam, spec['n'])):
                if jn % 3 == 2:
                    # the same return reached in two calls on one Solver (a statement form first, its solution looked at, then the
                    # return): the solution written afterwards is the whole one
                    out, tv, t = realwork.traced(p, forms=['w-2:0'], then_request=list(p.forms()))
                    res.count('returns_solved_in_two_calls')
                else:
                    out, tv, t = realwork.traced(p)
                if out.exc is not None or out.ret is not True:
                    res.count('unsolved_skipped')
                    continue
                res.evaluations += 1
                tmp = tempfile.mkdtemp(prefix='hv_c14_')
                try:
                    try:
                        loaded, r, path = write_and_fill(out, year, hx, pdfdrive, tmp)
                    except BaseException as e:  # noqa
                        res.violation(f'C14|real|{year}|solution-unwritable|{type(e).__name__}', f'{year} {fam} {p.key}: writing the solution raised {type(e).__name__}: {str(e)[:120]}', realwork.replay_of(p, 'write', spec))
                        continue
                    if r.exc is not None and not isinstance(r.exc, (hx.pdf_fields.PDFValueTooLong, hx.pdf_fields.PDFInvalidChoiceValue)):
                        res.violation(f'C14|real|{year}|read-back-raises|{type(r.exc).__name__}', f'{year} {fam} {p.key}: fill-pdfs on the written solution raised {type(r.exc).__name__}: {str(r.exc)[:120]}', realwork.replay_of(p, 'fill', spec))
                        continue
                    stored = {k: v[-1] for k, v in tv.stored.items()}
                    for k, v in stored.items():
                        res.count('values_compared')
                        res.add('sections_read_back', f'{year}|{k.split(".")[0].split(":")[0]}')
                        if k not in loaded:
                            if r.exc is None:
                                res.violation(f'C14|real|{year}|value-not-read-back|{realwork.key_line(k + " ")}', f'{year} {fam} {p.key}: {k} was solved but not loaded from the file', realwork.replay_of(p, 'fill', spec))
                            continue
                        if not same(loaded[k], v):
                            res.violation(f'C14|real|{year}|value-differs|{realwork.key_line(k + " ")}', f'{year} {fam} {p.key}: {k} solved {v!r}, read back {loaded[k]!r}', realwork.replay_of(p, 'fill', spec))
                    cp = configparser.ConfigParser()
                    cp.read(path)
                    if cp.get('habutax', 'tax_year', fallback=None) != str(year):
                        res.violation(f'C14|real|{year}|year-missing', f'solution file carries tax_year={cp.get("habutax", "tax_year", fallback=None)!r}', realwork.replay_of(p, 'write', spec))
                    if len(res.samples) < 1:
                        res.sample({'persona': p.describe(), 'values_compared': len(stored), 'example': {k: [repr(stored[k]), repr(loaded.get(k))] for k in list(stored)[:5]}})
                finally:
                    import shutil
                    shutil.rmtree(tmp, ignore_errors=True)
        for s in res.sets.get('sections_read_back', ()):
            res.distinct.add('S' + s)
        return res
    if spec['kind'] == 'year':
        # the real CLI: solve --year Y --solution f ; the file carries Y ; fill-pdfs uses Y's templates
        from hv import cli
        year = spec['year']
        p = None
        for k in range(40):
            q = scen.Persona(year, 'F0', f'yr:{seed}:{k}')
            out = scen.solve_persona(q)
            if out.exc is None and out.ret is True:
                p = q
                break
        if p is None:
            res.inconclusive.append(f'no base persona {year}')
            return res
        tmp = tempfile.mkdtemp(prefix='hv_c14y_')
        try:
            from hv.monitors.c20 import write_ini
            inp = os.path.join(tmp, 'in.ini')
            # (the input file also carries a [habutax] section naming ANOTHER year - a user may have started from an old solution
            # file; the year asked for on the command line is the one that counts and the one the solution carries)
            other = {2021: 2023, 2022: 2021, 2023: 2022}[year]
            write_ini(inp, dict(p.answers, **{'habutax.tax_year': str(other), 'habutax.version': '0.0.0'}))
            sol = os.path.join(tmp, 'sol.ini')
            # history: the same --solution path was used before, for a larger return (more statements, more forms)
            big = None
            for k in range(40):
                q = scen.Persona(year, ['F8', 'F2', 'F10'][k % 3], f'yrbig:{seed}:{k}')
                ob = scen.solve_persona(q)
                if ob.exc is None and ob.ret is True and len(drive.solution_map(ob)) > len(drive.solution_map(out)) + 1:
                    big = q
                    break
            if big is not None:
                inpb = os.path.join(tmp, 'big.ini')
                write_ini(inpb, big.answers)
                argsb = ['solve', inpb, '--year', str(year), '--solution', sol]
                for f_ in big.forms():
                    argsb += ['--form', f_]
                rb = cli.run_cli(argsb)
                if rb.exc is None and os.path.exists(sol):
                    res.count('cli_solution_path_reused')
            # (the same forms the reference run asked for: a filer with an N.C. return asks for the D-400 as well)
            form_args = []
            for f_ in p.forms():
                form_args += ['--form', f_]
            r = cli.run_cli(['solve', inp, '--year', str(year)] + form_args + ['--solution', sol])
            res.evaluations += 1
            res.count('cli_year_runs')
            # a return that does not solve (an input missing, nobody to ask) still writes what it has - for the year it was solved for
            inc = os.path.join(tmp, 'incomplete.ini')
            drop = [q for q in sorted(p.answers) if q.startswith('1040.')][:1]
            write_ini(inc, {q: v for q, v in p.answers.items() if q not in drop})
            solp = os.path.join(tmp, 'partial.ini')
            rp_ = cli.run_cli(['solve', inc, '--year', str(year)] + form_args + ['--solution', solp])
            res.evaluations += 1
            if rp_.exc is None and os.path.exists(solp):
                res.count('cli_partial_solutions_written')
                cpp = configparser.ConfigParser()
                cpp.read(solp)
                if cpp.get('habutax', 'tax_year', fallback=None) != str(year):
                    res.violation(f'C14|cli|{year}|year-missing', f'`solve --year {year} --solution` of a return that does not solve (missing {drop}) wrote tax_year={cpp.get("habutax", "tax_year", fallback=None)!r}', {'year': year, 'missing': drop})
            if r.exc is None and os.path.exists(sol):
                want = drive.solution_map(out)
                try:
                    cpf = configparser.ConfigParser()
                    with open(sol) as fh:
                        cpf.read_file(fh)
                    got = {sec: dict(cpf.items(sec, raw=True)) for sec in cpf.sections() if sec != 'habutax'}
                except Exception as e:  # noqa
                    res.violation(f'C14|cli|{year}|solution-file-unreadable|{type(e).__name__}', f'{year}: the solution written by `solve --solution` (path used before for another return: {big is not None}) cannot be read back: {type(e).__name__}: {str(e)[:100]}', {'year': year, 'persona': p.describe()})
                    return res
                if got is not None:
                    res.count('cli_solution_files_compared')
                    if got != want:
                        d = sorted(set(got) ^ set(want))[:4] or sorted(k_ for k_ in want if want[k_] != got.get(k_))[:4]
                        res.violation(f'C14|cli|{year}|solution-file-differs', f'{year}: the solution file differs from the solved values (sections {d}); path used before for another return: {big is not None}', {'year': year, 'persona': p.describe()})
            if r.exc is not None or 'Successfully solved' not in r.stdout:
                res.inconclusive.append(f'CLI solve of the base persona failed in {year}: {r.exc or r.stdout[-200:]}')
                return res
            cp = configparser.ConfigParser()
            cp.read(sol)
            if cp.get('habutax', 'tax_year', fallback=None) != str(year):
                res.violation(f'C14|cli|{year}|year-missing', f'`solve --year {year} --solution` wrote tax_year={cp.get("habutax", "tax_year", fallback=None)!r}', {'year': year})
            os.environ['HV_PDFTK_LOG'] = os.path.join(tmp, 'log')
            saved_path = os.environ['PATH']
            os.environ['PATH'] = pdfdrive.FAKE_DIR + os.pathsep + saved_path
            try:
                r2 = cli.run_cli(['fill-pdfs', sol, os.path.join(tmp, 'o.pdf')])
            finally:
                os.environ['PATH'] = saved_path
                os.environ.pop('HV_PDFTK_LOG', None)
            import json
            tpls = []
            if os.path.isdir(os.path.join(tmp, 'log')):
                for f in sorted(os.listdir(os.path.join(tmp, 'log'))):
                    if f.endswith('.json'):
                        rec = json.load(open(os.path.join(tmp, 'log', f)))
                        if rec['op'] == 'fill_form':
                            tpls.append(rec['argv'][0])
            res.count('templates_observed', len(tpls))
            res.distinct.add(f'year|{year}')
            res.distinct.add(f'year-templates|{year}|{len(tpls)}')
            bad = [t for t in tpls if f'ty{year}' not in t]
            if bad or not tpls:
                res.violation(f'C14|cli|{year}|other-years-forms', f'fill-pdfs of a {year} solution used templates {bad or "none"}', {'year': year})
        finally:
            import shutil
            shutil.rmtree(tmp, ignore_errors=True)
        return res
    # ---- generated values of every line type
    F, FM = hx.fields, hx.form
    cases = []
    for places in (0, 2, 5, 7):
        for v in FLOATS:
            cases.append((f'float{places}', f'{v!r}', 'float', places, v))
    for v in INTS:
        cases.append(('int', repr(v), 'int', None, v))
    for v in (True, False):
        cases.append(('bool', repr(v), 'bool', None, v))
    for m in list(progen.GenEnum) + [None]:
        cases.append(('enum', 'empty' if m is None else m.name, 'enum', None, m))
    for cname, txt in TEXTS.items():
        cases.append(('str', cname, 'str', None, txt))
    for idx, (tname, cname, ltype, places, val) in enumerate(cases):
        holder = {}

        def __init__(self, _val=val, _ltype=ltype, _places=places, **kwargs):
            fn = lambda s, i, v: _val
            if _ltype == 'float':
                fld = F.FloatField('1', fn, places=_places)
            elif _ltype == 'int':
                fld = F.IntegerField('1', fn)
            elif _ltype == 'bool':
                fld = F.BooleanField('1', fn)
            elif _ltype == 'enum':
                fld = F.EnumField('1', progen.GenEnum, fn)
            else:
                fld = F.StringField('1', fn)
            FM.Form.__init__(self, holder['cls'], [], [fld], [], pdf_fields=[hx.pdf_fields.TextPDFField('x', '1')], pdf_file='/nonexistent.pdf', **kwargs)
        cls = type('C14Form', (FM.Form,), {'form_name': 'gen', 'tax_year': 2099, 'description': 'gen', 'long_description': 'gen', 'sequence_no': 1,
                                          'jurisdiction': FM.Jurisdiction.US, '__init__': __init__, 'needs_filing': lambda s, v: True})
        holder['cls'] = cls
        hx.hforms.available_forms[2099] = [cls]
        tmp = tempfile.mkdtemp(prefix='hv_c14g_')
        try:
            with trace.Tracer() as t:
                out = drive.run_solver([cls], drive.config_from({}), ['gen'], tracer=t)
            tv = trace.TraceView(t.events)
            res.evaluations += 1
            res.count('generated_value_cases')
            res.distinct.add(f'{tname}|{cname}')
            rp = {'engine': 'generated-value', 'line_type': tname, 'value_class': cname, 'value': repr(val)}
            key = f'C14|gen|{tname.rstrip("0257") if tname.startswith("float") else tname}|{cname if ltype in ("str", "enum") else "number"}'
            if 'gen.1' not in tv.stored:
                res.count('generated_not_stored')
                continue
            if out.exc is not None:
                res.violation(key + '|solution-unwritable', f'{tname} value {val!r}: the value was solved but solution() raised {type(out.exc).__name__}: {str(out.exc)[:100]}', rp)
                continue
            stored = tv.stored['gen.1'][-1]
            try:
                loaded, r, path = write_and_fill(out, 2099, hx, pdfdrive, tmp)
            except BaseException as e:  # noqa
                res.violation(key + '|solution-unwritable', f'{tname} value {val!r}: producing/writing the solution raised {type(e).__name__}: {str(e)[:100]}', rp)
                continue
            if 'gen.1' not in loaded:
                res.violation(key + '|not-read-back', f'{tname} value {val!r}: reading the solution back failed: {type(r.exc).__name__ if r.exc else "no value"}: {str(r.exc)[:100]}', rp)
                continue
            if not same(loaded['gen.1'], stored):
                res.violation(key + '|value-differs', f'{tname} value class {cname}: solved {stored!r}, read back {loaded["gen.1"]!r}', rp)
            if idx in (0, 60):
                res.sample({'line_type': tname, 'value': repr(val), 'stored': repr(stored), 'read_back': repr(loaded.get('gen.1')), 'file_text': open(path).read()[:120]})
        finally:
            hx.hforms.available_forms.pop(2099, None)
            import shutil
            shutil.rmtree(tmp, ignore_errors=True)
    return res


def finalize(res, tier):
    c = res.counters
    if c.get('values_compared', 0) < 5000:
        res.inconclusive.append(f'only {c.get("values_compared", 0)} values of real returns compared')
    if c.get('generated_value_cases', 0) < 60:
        res.inconclusive.append('generated value classes not all run')
    if c.get('templates_observed', 0) < 3:
        res.inconclusive.append('year check saw no templates')
    return {}
