"""Deterministic oracles over one traced execution (TraceView + Outcome).
Each returns a list of (key_suffix, message).  They use only public results
(solve() return, solution(), diagnostic getters, solver.forms) and the trace."""
import math

from hv import hx, drive
from hv.trace import ground_truth

F, I, FM, S, V = hx.fields, hx.inputs, hx.form, hx.solver, hx.values


def _eq(a, b):
    if isinstance(a, float) and isinstance(b, float) and math.isnan(a) and math.isnan(b):
        return True
    return type(a) is type(b) and a == b


def provided_now(out, key):
    return ground_truth(out.store, key)[0]


STATEMENT_FORMS = {'w-2', '1098', '1099-int', '1099-div', '1099-g', '1099-r'}


# ---------------------------------------------------------------- C01
def demanded(out, tv):
    """D = required lines of every form the solver knows + every line read
    inside an attempt + requested field_names."""
    D = set(out.field_names)
    for name, fo in out.solver.forms.items():
        for f in fo.required_fields():
            D.add(f.name())
    D |= tv.read_keys
    return D


def c01(out, tv):
    v = []
    if out.exc is not None:
        return v           # an abort claims nothing
    if not isinstance(out.ret, bool):
        return [('nonbool', f'solve() returned {out.ret!r}')]
    U = set(tv.unimpl)
    Mi = set()
    for line, atts in tv.attempts.items():
        oc, det = atts[-1]
        if oc == 'missing_input' and not provided_now(out, det):
            Mi.add(det)
    # a line that received a value for an input the file does not hold (and that
    # was never supplied) skipped a needed input silently
    for (key, outcome, value, provided, raw, attempt) in tv.input_reads:
        if outcome == 'value' and not provided and not provided_now(out, key):
            Mi.add(key)
    D = demanded(out, tv)
    stored = set(tv.stored)
    B = D - stored
    if out.ret is True:
        if U:
            v.append(('solved-with-unimplemented', f'solve()==True but lines signalled unimplemented: {sorted(U)[:5]}'))
        if Mi:
            v.append(('solved-with-missing-input', f'solve()==True but needed inputs still missing: {sorted(Mi)[:5]}'))
        if B:
            v.append(('solved-with-blocked-line', f'solve()==True but demanded lines have no value: {sorted(B)[:5]}'))
    else:
        if not set(out.unimplemented) >= U:
            v.append(('diag-omits-unimplemented', f'unimplemented_fields() omits {sorted(U - set(out.unimplemented))[:5]}'))
        if not set(out.unmet_inputs) >= Mi:
            v.append(('diag-omits-missing-input', f'unmet_input_dependencies() omits {sorted(Mi - set(out.unmet_inputs))[:5]}'))
        for l in B:
            lo = tv.last_outcome(l)
            if lo and lo[0] == 'unmet_line':
                if l not in out.unmet_fields.get(lo[1], []):
                    v.append(('diag-omits-blocked-line', f'{l} is blocked behind {lo[1]} but unmet_field_dependencies() does not say so'))
                    break
            elif lo and lo[0] == 'missing_input' and not provided_now(out, lo[1]):
                if l not in out.unmet_inputs.get(lo[1], []):
                    v.append(('diag-omits-waiter', f'{l} waits on input {lo[1]} but unmet_input_dependencies() does not list it'))
                    break
        if not out.unimplemented and not out.unmet_inputs and not out.unmet_fields:
            v.append(('failed-without-reason', 'solve()==False but all three diagnostics are empty'))
    return v


def c01_vs_reference(out, ref):
    """Generated programs only: verdict and diagnostic sets vs the reference."""
    v = []
    vc = drive.verdict_class(out)
    if ref['abort'] is not None:
        if out.exc is None:
            v.append(('ref-abort-expected', f'reference reaches abort {ref["abort"]} but solve() returned {out.ret!r}'))
        return v
    if out.exc is not None:
        v.append(('unexpected-abort', f'solve() aborted with {type(out.exc).__name__}: {out.exc} but the reference evaluates without abort'))
        return v
    if ref['solved'] != (out.ret is True):
        v.append(('verdict-vs-reference', f'solve()=={out.ret!r} but reference solved={ref["solved"]} '
                  f'(unimpl={sorted(ref["unimpl"])[:3]}, missing={sorted(ref["missing"])[:3]}, blocked={sorted(ref["blocked"])[:3]})'))
        return v
    if out.ret is False:
        if set(out.unimplemented) != ref['unimpl']:
            v.append(('unimplemented-vs-reference', f'unimplemented_fields()={sorted(set(out.unimplemented))} reference={sorted(ref["unimpl"])}'))
        got = {k: set(x) for k, x in out.unmet_inputs.items() if x}
        if got != ref['missing']:
            v.append(('missing-vs-reference', f'unmet_input_dependencies()={got} reference={ref["missing"]}'))
        got = {k: set(x) for k, x in out.unmet_fields.items() if x}
        if got != ref['blocked']:
            v.append(('blocked-vs-reference', f'unmet_field_dependencies()={got} reference={ref["blocked"]}'))
    return v


# ---------------------------------------------------------------- C03
def final_values(tv):
    return {k: vs[-1] for k, vs in tv.stored.items()}


def c03(out, tv):
    """Re-evaluate every stored line with its own definition against the final
    input store and the final value store.  Must be called outside the Tracer."""
    v = []
    if out.exc is not None:
        return v, 0
    # a line that asked for another line which had no value yet (or for an input that was absent) and answered all the same:
    # the "not yet" signal was swallowed and the answer was formed from a partial view
    open_ = {}
    for ev in tv.events:
        if ev[0] == 'ATTEMPT_BEGIN':
            open_[ev[1]] = []
        elif ev[0] == 'READ_LINE' and not ev[2] and ev[4] in open_:
            open_[ev[4]].append(ev[1])
        elif ev[0] == 'ATTEMPT_END':
            pending = open_.pop(ev[1], [])
            if pending and ev[2] == 'value':
                v.append(('answered-without-a-line-it-asked-for', f'{ev[1]} asked for {pending[0]}, which had no value yet, and still answered {ev[3]!r}'))
                break
    fv = final_values(tv)
    vs = V.ValueStore()
    for k, val in fv.items():
        vs[k] = val
    n = 0
    # the final inputs are what the configuration holds now: read them through a
    # fresh InputStore (a store object that served the solve may carry state of its own)
    fresh_store = I.InputStore(out.cp, dict(getattr(out.store, 'input_specs', {}) or {}))
    for key, val in fv.items():
        fld = drive.find_field(out, key)
        if fld is None:
            v.append(('stored-line-without-field', f'{key} stored but no such line in solver.forms'))
            continue
        fi = FM.FormAccessor(fresh_store, fld.form())
        fvv = FM.FormAccessor(vs, fld.form())
        n += 1
        try:
            again = fld.value(fi, fvv)
        except BaseException as e:  # noqa
            v.append(('reeval-raises', f'{key}={val!r} stored, but re-evaluating its definition on the final stores raises {type(e).__name__}: {e}'))
            continue
        if not _eq(again, val):
            v.append(('not-a-fixed-point', f'{key} stored {val!r} but its definition yields {again!r} on the final inputs/values'))
    # the same with FRESH copies of the form objects: a definition that keeps something of its own between evaluations (a list
    # filled "the first time", a counter, a table it edits) agrees with itself but not with a clean copy of the form
    fresh_forms = {}
    for name, fo in (out.solver.forms.items() if out.solver is not None else ()):
        try:
            fresh_forms[name] = type(fo)(instance=fo.instance()) if fo.instance() else type(fo)()
        except BaseException:  # noqa
            pass
    # (two clean copies: one walked in the order the lines were stored, one in the reverse order - what a definition remembers from
    # a sibling line evaluated before it then differs)
    fresh_rev = {}
    for name, fo in (out.solver.forms.items() if out.solver is not None else ()):
        try:
            fresh_rev[name] = type(fo)(instance=fo.instance()) if fo.instance() else type(fo)()
        except BaseException:  # noqa
            pass
    walk = [(k_, v_, fresh_forms) for k_, v_ in fv.items()] + [(k_, v_, fresh_rev) for k_, v_ in reversed(list(fv.items()))]
    for key, val, pool_ in walk:
        ff = pool_.get(key.split('.', 1)[0])
        if ff is None:
            continue
        fld2 = next((f for f in ff.fields() if f.name() == key), None)
        if fld2 is None:
            continue
        try:
            again = fld2.value(FM.FormAccessor(fresh_store, ff), FM.FormAccessor(vs, ff))
        except BaseException:  # noqa  (a clean copy may legitimately need the solver it is not attached to)
            continue
        n += 1
        if not _eq(again, val):
            v.append(('not-a-fixed-point-on-a-fresh-form', f'{key} stored {val!r}; the same definition on a fresh copy of the form yields {again!r} on the final inputs/values (the definition carries state between evaluations)'))
            break
    # the same, over the values as the *returned solution* carries them (each value
    # printed by its line's to_string and re-read by from_string, which is what
    # solution() hands to its readers)
    vs2 = V.ValueStore()
    view = {}
    for key, val in fv.items():
        fld = drive.find_field(out, key)
        if fld is None:
            continue
        try:
            view[key] = fld.from_string(fld.to_string(val))
        except BaseException:  # noqa  (unprintable value: C14's subject)
            view[key] = val
        vs2[key] = view[key]
    for key, val in view.items():
        fld = drive.find_field(out, key)
        fi = FM.FormAccessor(fresh_store, fld.form())
        try:
            again = fld.value(fi, FM.FormAccessor(vs2, fld.form()))
        except BaseException as e:  # noqa
            continue        # already reported above if it also fails on the stored values
        n += 1
        if not _eq(again, val) and not _eq(again, view[key]):
            v.append(('solution-not-a-fixed-point', f'{key} is returned as {view[key]!r} but its definition yields {again!r} on the values the solution returns for the lines it reads'))
    # online: reads see the latest store; a key never changes value
    latest = {}
    for ev in tv.events:
        if ev[0] == 'STORE_LINE':
            if ev[1] in latest and not _eq(latest[ev[1]], ev[2]):
                v.append(('overwritten', f'{ev[1]} stored {latest[ev[1]]!r} and later {ev[2]!r}'))
            latest[ev[1]] = ev[2]
        elif ev[0] == 'READ_LINE' and ev[2]:
            if ev[1] not in latest or not _eq(latest[ev[1]], ev[3]):
                v.append(('stale-read', f'a read of {ev[1]} returned {ev[3]!r} but the latest store was {latest.get(ev[1], "<none>")!r}'))
    # the returned solution is the stored values
    sol = drive.solution_map(out)
    for key, val in fv.items():
        fld = drive.find_field(out, key)
        if fld is None:
            continue
        sec, base = key.split('.', 1)
        text = sol.get(sec, {}).get(base.lower())
        if text is None:
            v.append(('solution-lacks-stored-line', f'{key} was stored but is not in solution()'))
        else:
            try:
                exp = fld.to_string(val)
            except Exception as e:
                exp = None
            if exp is not None and text != exp and text.strip() != exp.strip():
                v.append(('solution-text-differs', f'solution()[{key}]={text!r} but stored value {val!r} prints as {exp!r}'))
    return v, n


# ---------------------------------------------------------------- C04
def c04(out, tv):
    v = []
    if out.exc is not None:
        return v
    # the demand closure, built from the request outwards: the required lines of the requested forms (and the lines asked for
    # by name), every line one of THOSE lines read, the required lines of the forms these reads brought in, and so on.  A
    # form that was loaded for another reason, with all the reads its own lines then make, does not justify itself.
    reads_by = {}
    for ev in tv.events:
        if ev[0] == 'READ_LINE' and ev[4] is not None:
            reads_by.setdefault(ev[4], set()).add(ev[1])
    forms_part = set()
    lines_exp = set()
    todo_forms = list(out.request)
    todo_lines = list(out.field_names)
    while todo_forms or todo_lines:
        while todo_forms:
            full = todo_forms.pop()
            if full in forms_part:
                continue
            forms_part.add(full)
            rl = drive.required_lines(out.classes, full)
            if rl is not None:
                todo_lines.extend(rl)
        while todo_lines:
            line = todo_lines.pop()
            if line in lines_exp:
                continue
            lines_exp.add(line)
            f_ = line.split('.', 1)[0]
            if f_ not in forms_part:
                todo_forms.append(f_)
            for k in reads_by.get(line, ()):
                if k not in lines_exp:
                    todo_lines.append(k)
    sol = drive.solution_map(out)
    got_lines = {f'{s}.{k}' for s, kv in sol.items() for k in kv}
    exp_lower = {_lower_key(k) for k in lines_exp}
    got_forms = set(sol)
    known_forms = set(out.solver.forms)
    if out.ret is True:
        # a form that takes part but has no required line and none of whose lines was read has nothing to show: no section
        exp_sections = {k.split('.', 1)[0] for k in exp_lower}
        if got_forms != exp_sections:
            v.append(('sections-ne-closure', f'solution sections {sorted(got_forms ^ exp_sections)[:6]} differ from the forms demanded'))
        if got_lines != exp_lower:
            miss = sorted(exp_lower - got_lines)[:5]
            extra = sorted(got_lines - exp_lower)[:5]
            v.append(('lines-ne-closure', f'solution lines differ from the demand closure: missing {miss} extra {extra}'))
        if known_forms != forms_part:
            v.append(('forms-ne-closure', f'solver.forms {sorted(known_forms ^ forms_part)[:6]} differ from the forms demanded'))
        # a statement (W-2, 1098, 1099-...) whose boxes a line of the return consulted takes part in the return: its copy is in the solution
        # (only statements: a schedule's own questions are legitimately consulted without the schedule being filed - the N.C. Schedule A
        # asks for federal Schedule A amounts of filers who do not itemize federally)
        for r in tv.input_reads:
            sec = r[0].split('.', 1)[0]
            if sec.split(':')[0] in STATEMENT_FORMS and r[1] == 'value' and r[5] and sec not in got_forms:
                v.append(('statement-consulted-but-absent', f'{r[5]} consulted {r[0]} (statement {sec}) and the solved return has no section for that statement'))
                break
    else:
        if not got_lines <= exp_lower:
            v.append(('undemanded-line', f'partial solution holds undemanded lines {sorted(got_lines - exp_lower)[:5]}'))
        if not known_forms <= forms_part:
            v.append(('undemanded-form', f'solver.forms holds undemanded forms {sorted(known_forms - forms_part)[:5]}'))
    return v


def _lower_key(k):
    s, b = k.split('.', 1)
    return f'{s}.{b.lower()}'


def c04_vs_reference(out, ref):
    v = []
    if out.exc is not None or ref['abort'] is not None:
        return v
    sol = drive.solution_map(out)
    got_lines = {f'{s}.{k}' for s, kv in sol.items() for k in kv}
    if out.ret is True and ref['solved']:
        if got_lines != {_lower_key(k) for k in ref['D']}:
            v.append(('lines-ne-reference-closure', f'solution lines {sorted(got_lines ^ set(ref["D"]))[:6]} differ from the reference demand closure'))
        if set(sol) != ref['forms']:
            v.append(('forms-ne-reference-closure', f'solution sections {sorted(set(sol) ^ ref["forms"])} differ from the reference'))
    elif not got_lines <= {_lower_key(k) for k in ref['D']}:
        v.append(('undemanded-vs-reference', f'partial solution has lines outside the reference closure: {sorted(got_lines - set(ref["D"]))[:5]}'))
    return v


# ---------------------------------------------------------------- C06
def c06(out, tv, const=2):
    v = []
    waited = {}
    nattempts = {}
    for ev in tv.events:
        if ev[0] == 'ATTEMPT_END':
            nattempts[ev[1]] = nattempts.get(ev[1], 0) + 1
            if ev[2] in ('unmet_line', 'missing_input', 'missing_spec'):
                waited.setdefault(ev[1], set()).add((ev[2], ev[3]))
    # a line explicitly requested through field_names although its form already
    # schedules it (a required line, or a name given twice) is queued once per
    # request by design of that testing hook: allow that multiplicity
    req = set()
    for name, fo in (out.solver.forms.items() if out.solver is not None else ()):
        for f in fo.required_fields():
            req.add(f.name())
    for line, n in nattempts.items():
        mult = out.field_names.count(line) + (1 if line in req or line not in out.field_names else 0)
        mult = max(1, mult)
        w = len(waited.get(line, ()))
        bound = mult * (1 + w) + (const - 1)
        if n > bound:
            v.append(('line-evaluated-too-often', f'{line} evaluated {n} times, bound {bound} = {mult} x (1 + {w} distinct waits) + {const - 1}'))
            break
    asked = {}
    for p in tv.prompts:
        asked[p[0]] = asked.get(p[0], 0) + 1
    for k, n in asked.items():
        if n > 1:
            v.append(('input-asked-twice', f'{k} was prompted {n} times'))
            break
    # a line is announced as met only once it has a value (its waiters are released to read it)
    # (an input and the line echoing it can carry the same name: the tracker of the lines is the one in which a wait on a
    # name was registered that only ever was an unmet LINE)
    line_deps = {a[1] for atts in tv.attempts.values() for a in atts if a[0] == 'unmet_line'}
    input_deps = {a[1] for atts in tv.attempts.values() for a in atts if a[0] == 'missing_input'}
    field_tids = {ev[1] for ev in tv.events if ev[0] == 'DEP' and ev[2] == 'add_unmet' and ev[3] in line_deps - input_deps}
    line_names = set(tv.attempts)
    have = set()
    for ev in tv.events:
        if ev[0] == 'STORE_LINE':
            have.add(ev[1])
        elif ev[0] == 'DEP' and ev[2] == 'meet' and ev[1] in field_tids and ev[3] in line_names and ev[3] not in have:
            v.append(('met-announced-without-a-value', f'{ev[3]} was announced as met although it has no value: its waiters are released before their dependency is met'))
            break
    # an input is announced as met only once it was supplied (a question the user declined supplies nothing)
    input_tids = {ev[1] for ev in tv.events if ev[0] == 'DEP' and ev[2] == 'add_unmet' and ev[3] in input_deps - line_deps} - field_tids
    got_in = set(getattr(out, 'initial_inputs', {}) or {})
    for ev in tv.events:
        if ev[0] == 'PROMPT' and ev[4]:
            got_in.add(ev[1])
        elif ev[0] == 'DEP' and ev[2] == 'meet' and ev[1] in input_tids and ev[3] in input_deps - line_deps and ev[3] not in got_in and not provided_now(out, ev[3]):
            v.append(('input-met-announced-although-not-supplied', f'input {ev[3]} was announced as met although nobody supplied it: the lines waiting for it are released to fail again'))
            break
    # tracker history: a yield needs a registered waiter of a met dependency
    pend, met = {}, {}
    for ev in tv.events:
        if ev[0] != 'DEP':
            continue
        _, tid, op, dep, dependent = ev
        if op == 'add_unmet':
            pend.setdefault(tid, {}).setdefault(dep, []).append(dependent)
        elif op == 'meet':
            met.setdefault(tid, set()).add(dep)
        elif op == 'yield':
            ok = False
            for d in met.get(tid, ()):
                lst = pend.get(tid, {}).get(d, [])
                if dependent in lst:
                    lst.remove(dependent)
                    ok = True
                    break
            if not ok:
                v.append(('released-without-met-registration', f'{dependent} was released but has no registration on a met dependency'))
                break
    if out.exc is None:
        fv = set(tv.stored)
        for dep, lst in out.unmet_fields.items():
            if lst and dep in fv:
                v.append(('lost-waiter-line', f'{lst[:3]} still wait on {dep} which has a value'))
                break
        for dep, lst in out.unmet_inputs.items():
            if lst and provided_now(out, dep):
                v.append(('lost-waiter-input', f'{lst[:3]} still wait on input {dep} which is provided'))
                break
        for line, atts in tv.attempts.items():
            oc, det = atts[-1]
            if oc == 'unmet_line' and det in fv:
                v.append(('lost-wakeup', f'{line} last stopped at {det}, which later got a value, and was never re-evaluated'))
                break
            if oc == 'missing_input' and provided_now(out, det):
                v.append(('lost-wakeup-input', f'{line} last stopped at input {det}, which was later provided, and was never re-evaluated'))
                break
            if oc == 'missing_spec':
                # "the form owning that input is not loaded yet" is answered by loading it and trying the line again at once:
                # a line whose last evaluation ended there was dropped (it waits for nothing and will never be tried again)
                v.append(('dropped-after-missing-input-definition', f'{line} last stopped because the definition of input {det} was not loaded, and was never evaluated again'))
                break
    return v


# ---------------------------------------------------------------- C12
PYT = {F.StringField: str, F.BooleanField: bool, F.IntegerField: int, F.FloatField: float}


def declared(fld):
    """(python type, places or None, empty value) from the field's public face."""
    for cls, t in PYT.items():
        if type(fld) is cls:
            places = None
            if t is float:
                s = fld.to_string(0.0)
                places = len(s.split('.')[1]) if '.' in s else 0
            return t, places, {str: '', bool: False, int: 0, float: 0.0}[t]
    if isinstance(fld, F.EnumField):
        return fld.enum(), None, None
    return None, None, None


def c12_value(fld, val):
    t, places, empty = declared(fld)
    if t is None:
        return None
    if isinstance(fld, F.EnumField):
        if val is not None and type(val) is not t:
            return f'{fld.name()} stored {val!r} of {type(val).__name__}, declared enumeration {t}'
        return None
    if type(val) is not t:
        return f'{fld.name()} stored {val!r} of {type(val).__name__}, declared {t.__name__}'
    if t is float:
        if not math.isfinite(val):
            return None
        if round(val, places) != val:
            return f'{fld.name()} stored {val!r} which is not rounded to {places} places'
    return None


def c12(out, tv):
    v = []
    n = 0
    cache = {}
    for ev in tv.events:
        if ev[0] == 'STORE_LINE':
            key = ev[1]
            if key not in cache:
                cache[key] = drive.find_field(out, key)
            fld = cache[key]
            if fld is None:
                continue
            n += 1
            msg = c12_value(fld, ev[2])
            if msg:
                v.append(('stored-bad-type-or-rounding', msg))
        elif ev[0] == 'READ_LINE' and ev[2]:
            key = ev[1]
            fld = cache.get(key)
            if fld is not None:
                msg = c12_value(fld, ev[3])
                if msg:
                    v.append(('reader-saw-unconverted', 'a reader saw: ' + msg))
    return v, n


# ---------------------------------------------------------------- C13
def c13(out, tv):
    """Prompt events vs the missing-read events that precede them."""
    v = []
    missing_reads = {}        # input -> set(lines whose read of it was 'missing')
    last_outcome = {}
    provided = set(out.initial_inputs)
    provided_l = {_lower_key(k) for k in provided}
    asked = set()
    for ev in tv.events:
        k = ev[0]
        if k == 'READ_INPUT' and ev[2] == 'missing':
            missing_reads.setdefault(ev[1], set()).add(ev[6])
        elif k == 'ATTEMPT_END':
            last_outcome[ev[1]] = (ev[2], ev[3])
        elif k == 'STORE_INPUT':
            provided_l.add(_lower_key(ev[1]))
        elif k == 'PROMPT':
            name, nb = ev[1], ev[2]
            if name not in missing_reads:
                v.append(('prompt-without-missing-read', f'prompted for {name} but no line read it and found it missing'))
            if _lower_key(name) in provided_l:
                v.append(('prompt-for-provided', f'prompted for {name} although it is supplied'))
            if name in asked:
                v.append(('prompt-twice', f'prompted twice for {name}'))
            asked.add(name)
            for l in nb:
                if last_outcome.get(l) != ('missing_input', name):
                    v.append(('needed-by-wrong', f'prompt for {name} quotes {l} whose latest evaluation ended {last_outcome.get(l)}'))
                    break
            if not nb:
                v.append(('needed-by-empty', f'prompt for {name} quotes no line'))
    # the final report (what the CLI prints as "needed by"): every line quoted under a missing input stopped at a missing read of it
    if out.exc is None and isinstance(getattr(out, 'unmet_inputs', None), dict):
        for name, lines in out.unmet_inputs.items():
            wrong = [l for l in lines if last_outcome.get(l) != ('missing_input', name)]
            if wrong:
                v.append(('report-quotes-wrong-lines', f'the report lists {wrong[:2]} as needing {name}, but their latest evaluation ended {[last_outcome.get(l) for l in wrong[:2]]}'))
                break
    return v
