"""E3 - generated form programs and their reference interpreter.

A program is plain JSON (see `random_program`).  `build(prog)` synthesises real
habutax Form / InputForm subclasses from it (real Field and Input classes);
`reference(prog, final_inputs)` is a denotational interpreter (least fixed
point of demand + valuation) which shares only the tiny expression evaluator
with the compiled bodies, not a line of the solver.
"""
import configparser
import itertools
import random

from hv import hx
from hv.common import h

F, I, FM, S, V = hx.fields, hx.inputs, hx.form, hx.solver, hx.values


# ----------------------------------------------------------------------
# expression evaluator shared by compiled bodies and the reference
class Weird(object):
    """Marker for awkward return values that JSON cannot carry."""
    TABLE = {}


class _StrSub(str):
    pass


class _IntSub(int):
    pass


class _FloatSub(float):
    pass


import enum as _enum  # noqa: E402
OtherEnum = _enum.Enum('OtherEnum', {'p': 1, 'q': 2})
GenEnum = hx.henum.make('GenEnum', {'alpha': 'first', 'beta': 'second', 'gamma': 'third'})

WEIRD = {
    'none': None, 'empty': '', 'blank': '   ', 'tab': '\t\n', 'true': True, 'false': False,
    'int0': 0, 'int7': 7, 'intneg': -3, 'bigint': 10 ** 22,
    'f0': 0.0, 'negzero': -0.0, 'f005': 0.005, 'f2675': 2.675, 'f1e22': 1e22, 'f1e-7': 1e-7,
    'f12345': 1234.5678, 'fneg': -17.555,
    'str': 'hello', 'strnum': '12', 'strsub': _StrSub('sub'), 'strsubblank': _StrSub('  '),
    'intsub': _IntSub(5), 'floatsub': _FloatSub(2.5),
    'otherenum': OtherEnum.p, 'genenum': GenEnum.beta, 'list': [1], 'tuple': (1.0, 2.0),
}


def ev(node, self, i, v):
    op = node[0]
    if op == 'const':
        return node[1]
    if op == 'weird':
        return WEIRD[node[1]]
    if op == 'in':
        return i[node[1]]
    if op == 'ln':
        return v[node[1]]
    if op == 'add':
        return _num(ev(node[1], self, i, v)) + _num(ev(node[2], self, i, v))
    if op == 'sub':
        return _num(ev(node[1], self, i, v)) - _num(ev(node[2], self, i, v))
    if op == 'mul':
        return _num(ev(node[1], self, i, v)) * node[2]
    if op == 'if':
        c = ev(node[1], self, i, v)
        return ev(node[2], self, i, v) if _truth(c) else ev(node[3], self, i, v)
    if op == 'gt':
        return _num(ev(node[1], self, i, v)) > _num(ev(node[2], self, i, v))
    if op == 'seq':
        ev(node[1], self, i, v)
        return ev(node[2], self, i, v)
    if op == 'unimpl':
        return self.not_implemented()
    if op == 'cast':
        x = ev(node[2], self, i, v)
        t = node[1]
        if t == 'float':
            return float(_num(x))
        if t == 'int':
            return int(_num(x))
        if t == 'bool':
            return bool(_truth(x))
        if t == 'str':
            return 's' + str(x)
        if t == 'enum':
            return list(GenEnum)[int(_num(x)) % 3]
    raise ValueError(f'bad node {node}')


def _num(x):
    if isinstance(x, bool):
        return 1.0 if x else 0.0
    if isinstance(x, (int, float)):
        return x
    if isinstance(x, str):
        return float(len(x))
    if x is None:
        return 0.0
    return 1.0


def _truth(x):
    if isinstance(x, (int, float)) and not isinstance(x, bool):
        return x > 0
    return bool(x)


# ----------------------------------------------------------------------
INPUT_TYPES = {'float': I.FloatInput, 'int': I.IntegerInput, 'bool': I.BooleanInput, 'str': I.StringInput}
FIELD_TYPES = {'float': F.FloatField, 'int': F.IntegerField, 'bool': F.BooleanField, 'str': F.StringField}


def build(prog):
    """Return the list of synthesised form classes."""
    classes = []
    for fs in prog['forms']:
        classes.append(_build_form(fs))
    return classes


def _mk_input(n, t):
    if t == 'enum':
        return I.EnumInput(n, GenEnum, allow_empty=True)
    return INPUT_TYPES[t](n)


def _mk_field(ls):
    body = ls['body']

    def fn(self, i, v, _b=body):
        return ev(_b, self, i, v)
    t = ls['type']
    if t == 'float':
        return F.FloatField(ls['name'], fn, places=ls.get('places', 2))
    if t == 'enum':
        return F.EnumField(ls['name'], GenEnum, fn)
    return FIELD_TYPES[t](ls['name'], fn)


def _build_form(fs):
    kind = fs.get('kind', 'form')
    holder = {}

    if kind == 'inputform':
        def __init__(self, **kwargs):
            inputs = [_mk_input(n, t) for n, t in fs['inputs']]
            FM.InputForm.__init__(self, holder['cls'], inputs, **kwargs)
        base = FM.InputForm
    else:
        def __init__(self, **kwargs):
            inputs = [_mk_input(n, t) for n, t in fs['inputs']]
            req = [_mk_field(l) for l in fs['lines'] if l['required']]
            opt = [_mk_field(l) for l in fs['lines'] if not l['required']]
            FM.Form.__init__(self, holder['cls'], inputs, req, opt, **kwargs)
        base = FM.Form
    attrs = {
        'form_name': fs['name'], 'tax_year': 2099, 'description': 'generated ' + fs['name'],
        'long_description': 'generated form', 'jurisdiction': FM.Jurisdiction.US,
        '__init__': __init__, 'needs_filing': lambda self, values: False,
    }
    if fs.get('instances'):
        attrs['valid_instances'] = list(fs['instances'])
    cls = type('Gen_' + fs['name'].replace('-', '_'), (base,), attrs)
    holder['cls'] = cls
    return cls


# ----------------------------------------------------------------------
# the convention model (C12): what a line's raw result must be stored as
EMPTY = {'float': 0.0, 'int': 0, 'bool': False, 'str': '', 'enum': None}
PYTYPE = {'float': float, 'int': int, 'bool': bool, 'str': str, 'enum': GenEnum}


class TypeAbort(Exception):
    pass


def convention(raw, ltype, places=2):
    if raw is None or (isinstance(raw, str) and raw.strip() == ''):
        return EMPTY[ltype]
    if type(raw) is not PYTYPE[ltype]:
        raise TypeAbort(f'{type(raw)} for {ltype}')
    if ltype == 'float':
        return round(raw, places)
    return raw


def input_value(text, itype):
    s = text.strip()
    if itype == 'float':
        return 0.0 if s == '' else float(s)
    if itype == 'int':
        return 0 if s == '' else int(s)
    if itype == 'bool':
        s = s.lower()
        if s in ('true', 'yes', 'y', '1', 'on'):
            return True
        if s in ('false', 'no', 'n', '0', 'off'):
            return False
        raise ValueError(s)
    if itype == 'enum':
        return None if s == '' else GenEnum[s]
    return s


# ----------------------------------------------------------------------
class _Stop(Exception):
    def __init__(self, kind, what):
        self.kind, self.what = kind, what


class _Abort(Exception):
    def __init__(self, kind, what):
        self.kind, self.what = kind, what


class _RefSelf(object):
    def not_implemented(self, detailed=None):
        raise _Stop('unimpl', None)


def split_key(key, cur_form):
    if '.' not in key:
        return cur_form, key
    f, k = key.split('.', 1)
    return f, k


def reference(prog, final_inputs):
    """Least fixed point of demand and valuation given the final input texts
    {qualified input name: text}.  Returns a dict:
      abort      None or (kind, what) if the evaluation reaches an abort
      V          {line: stored value}
      D          demanded lines;   forms: participating form names
      unimpl     lines ending in not_implemented
      missing    {input: {lines}} demanded lines stopped at an absent input
      blocked    {dependency: {lines}} lines stopped at a line without value
    """
    specs = {fs['name']: fs for fs in prog['forms']}

    def form_spec(full):
        base = full.split(':')[0]
        if full.count(':') > 1:
            raise _Abort('badname', full)
        return specs.get(base)

    def lines_of(full):
        fs = form_spec(full)
        if fs.get('kind') == 'inputform':
            return {n: {'name': n, 'type': t if t != 'str' else 'str', 'required': True, 'body': ['in', n], 'places': 2}
                    for n, t in fs['inputs']}
        return {l['name']: l for l in fs['lines']}

    D, Vv, forms = set(), {}, set()
    order = []
    inputs_read = set()

    def participate(full):
        if full in forms:
            return
        if form_spec(full) is None:
            raise _Abort('unsupported_form', full)
        forms.add(full)
        for n, l in lines_of(full).items():
            if l['required']:
                demand(f'{full}.{n}')

    def demand(key):
        if key not in D:
            D.add(key)
            order.append(key)

    for f in prog['request']:
        participate(f)
    for k in prog.get('field_names', []):
        demand(k)

    result = {'abort': None}
    try:
        changed = True
        status = {}
        while changed:
            changed = False
            for key in list(order):
                if key in Vv:
                    continue
                full, lname = key.split('.', 1)
                ls = lines_of(full).get(lname)
                if ls is None:
                    raise _Abort('unknown_line', key)

                class RI(object):
                    def __getitem__(s, k):
                        f, n = split_key(k, full)
                        fs = form_spec(f)
                        if fs is None:
                            raise _Abort('unsupported_form', f)
                        it = dict((a, b) for a, b in fs['inputs']).get(n)
                        if it is None:
                            raise _Abort('unknown_input', f'{f}.{n}')
                        q = f'{f}.{n}'
                        inputs_read.add(q)
                        if q not in final_inputs:
                            raise _Stop('missing', q)
                        try:
                            return input_value(final_inputs[q], it)
                        except (ValueError, KeyError):
                            raise _Abort('invalid_input', q)

                class RV(object):
                    def __getitem__(s, k):
                        f, n = split_key(k, full)
                        q = f'{f}.{n}'
                        if q not in D:
                            if f not in forms:
                                participate(f)
                            if n not in lines_of(f):
                                raise _Abort('unknown_line', q)
                            demand(q)
                            nonlocal_changed[0] = True
                        if q in Vv:
                            return Vv[q]
                        raise _Stop('blocked', q)
                nonlocal_changed = [False]
                try:
                    raw = ev(ls['body'], _RefSelf(), RI(), RV())
                    try:
                        Vv[key] = convention(raw, ls['type'], ls.get('places', 2))
                    except TypeAbort as e:
                        raise _Abort('typeerror', key)
                    status[key] = ('value', None)
                    changed = True
                except _Stop as st:
                    status[key] = (st.kind, st.what)
                except (TypeError, ValueError, ZeroDivisionError, OverflowError) as e:
                    raise _Abort('body_error', f'{key}: {type(e).__name__}')
                if nonlocal_changed[0]:
                    changed = True
    except _Abort as a:
        result['abort'] = (a.kind, a.what)
        status = {}
    result['V'] = Vv
    result['inputs_read'] = inputs_read
    result['D'] = D
    result['forms'] = forms
    result['unimpl'] = {k for k, s in status.items() if s[0] == 'unimpl'}
    missing, blocked = {}, {}
    for k, s in status.items():
        if s[0] == 'missing':
            missing.setdefault(s[1], set()).add(k)
        elif s[0] == 'blocked':
            blocked.setdefault(s[1], set()).add(k)
    result['missing'] = missing
    result['blocked'] = blocked
    result['solved'] = result['abort'] is None and all(k in Vv for k in D)
    return result


# ----------------------------------------------------------------------
def run_program(prog, schedule_seed=None, tracer=None, form_order=None):
    """Run the real solver on the program.  Prompt answers come from
    prog['answers']; anything else asked is refused."""
    from hv import drive
    classes = build(prog)
    cp = drive.config_from(prog.get('file', {}))
    answers = prog.get('answers', {})

    def answer(missing, needed_by):
        return answers.get(missing.name())
    request = list(prog['request'])
    if form_order is not None:
        request = [request[k] for k in form_order]
    return drive.run_solver(classes, cp, request, prog.get('field_names', []), answer=answer,
                            schedule_seed=schedule_seed, tracer=tracer, use_prompt=prog.get('prompt', True))


# ----------------------------------------------------------------------
LINE_NAMES = ['1', '2', '3', '4a', '4b', '10', '11', '2z', 'x', 'y_1', 'total', '9', '20', '5']
INPUT_NAMES = ['a', 'b', 'c', 'n', 'flag', 'amt']
FORM_NAMES = ['fa', 'fb', 'f10', 'f2', 'g-1', 'w']


def random_program(rng, size=None):
    size = size or rng.choice(['s', 's', 'm', 'm', 'l'])
    nforms = {'s': rng.randint(1, 2), 'm': rng.randint(2, 3), 'l': rng.randint(3, 6)}[size]
    maxlines = {'s': 3, 'm': 5, 'l': 8}[size]
    fnames = rng.sample(FORM_NAMES, nforms)
    forms = []
    all_lines = []   # (form full name, line, type)
    all_inputs = []  # (qualified, type)
    for fn in fnames:
        kind = 'inputform' if (fn == 'w' or rng.random() < 0.12) else 'form'
        instances = None
        if rng.random() < 0.25:
            instances = ['you', 'spouse'] if kind == 'form' else None
        ninp = rng.randint(1 if kind == 'inputform' else 0, 3)
        inps = [[n, rng.choice(['float', 'float', 'int', 'bool', 'str', 'enum'])] for n in rng.sample(INPUT_NAMES, ninp)]
        fs = {'name': fn, 'kind': kind, 'instances': instances, 'inputs': inps, 'lines': []}
        fulls = [fn] if not instances and kind == 'form' else ([f'{fn}:{x}' for x in instances] if instances else [f'{fn}:0', f'{fn}:1'])
        fs['_fulls'] = fulls
        if kind == 'form':
            for ln in rng.sample(LINE_NAMES, rng.randint(1, maxlines)):
                fs['lines'].append({'name': ln, 'type': rng.choice(['float', 'float', 'float', 'int', 'bool', 'str']),
                                    'required': rng.random() < 0.5, 'places': rng.choice([2, 2, 0, 5]), 'body': None})
        forms.append(fs)
        for full in fulls:
            for n, t in inps:
                all_inputs.append((f'{full}.{n}', t))
            if kind == 'inputform':
                for n, t in inps:
                    all_lines.append((full, n, t))
            else:
                for l in fs['lines']:
                    all_lines.append((full, l['name'], l['type']))
    # bodies
    p_unknown = 0.015
    for fs in forms:
        if fs['kind'] != 'form':
            continue
        for l in fs['lines']:
            l['body'] = ['cast', l['type'], _rand_expr(rng, fs, all_lines, all_inputs, depth=rng.randint(0, 3), p_unknown=p_unknown)]
    # make sure something is required in a requested form
    formforms = [fs for fs in forms if fs['kind'] == 'form']
    if not formforms:
        fs = forms[0]
        fs['kind'] = 'form'
        fs['lines'] = [{'name': '1', 'type': 'float', 'required': True, 'places': 2,
                        'body': ['cast', 'float', ['in', fs['inputs'][0][0]] if fs['inputs'] else ['const', 1.0]]}]
        fs['_fulls'] = [fs['name']] if not fs.get('instances') else fs['_fulls']
        formforms = [fs]
    req_forms = rng.sample(formforms, rng.randint(1, min(2, len(formforms))))
    request = []
    for fs in req_forms:
        if not any(l['required'] for l in fs['lines']):
            fs['lines'][0]['required'] = True
        if len(fs['_fulls']) > 1 and rng.random() < 0.4:
            request.extend(rng.sample(fs['_fulls'], 2))      # two numbered copies of the same form, both requested
        else:
            request.append(rng.choice(fs['_fulls']))
    field_names = []
    if rng.random() < 0.2:
        fs = rng.choice(req_forms)
        full = [r for r in request if r.split(':')[0] == fs['name']][0]
        field_names = [f'{full}.{l["name"]}' for l in rng.sample(fs['lines'], 1)]
    # inputs
    file, answers = {}, {}
    mode = rng.choice(['all_file', 'mixed', 'mixed', 'mixed', 'all_answer', 'sparse'])
    for q, t in all_inputs:
        text = _rand_text(rng, t)
        r = rng.random()
        if mode == 'all_file':
            file[q] = text
        elif mode == 'all_answer':
            answers[q] = text
        elif mode == 'mixed':
            if r < 0.45:
                file[q] = text
            elif r < 0.9:
                answers[q] = text
        else:
            if r < 0.3:
                file[q] = text
            elif r < 0.5:
                answers[q] = text
    if rng.random() < 0.02 and file:
        q = rng.choice(sorted(file))
        t = dict(all_inputs)[q]
        if t in ('float', 'int', 'bool', 'enum'):
            file[q] = 'not-a-value'
    for fs in forms:
        del fs['_fulls']
    return {'forms': forms, 'request': request, 'field_names': field_names, 'file': file, 'answers': answers,
            'prompt': rng.random() < 0.9}


def _rand_text(rng, t):
    if t == 'float':
        return rng.choice(['0', '1', '2.5', '100', '3.14159', '-4', '', '1e3', ' 7 ', '0.005', '12345.678'])
    if t == 'int':
        return rng.choice(['0', '1', '2', '3', '-1', '', '15'])
    if t == 'bool':
        return rng.choice(['yes', 'no', 'true', 'false', 'Y', 'n', '1', '0', 'on', 'off'])
    if t == 'enum':
        return rng.choice(['', '', 'alpha', 'beta', ' gamma '])
    return rng.choice(['abc', 'x y', '', 'Hello World', '42'])


def _rand_expr(rng, fs, all_lines, all_inputs, depth, p_unknown):
    cur = fs['name']

    def line_ref():
        r = rng.random()
        if r < p_unknown:
            return ['ln', rng.choice(['nosuch.1', f'{cur}.nosuchline', 'zz:1:2.x'])]
        own = [(f, n, t) for f, n, t in all_lines if f.split(':')[0] == cur]
        pool = own if (own and rng.random() < 0.6) else all_lines
        f, n, t = rng.choice(pool)
        if f.split(':')[0] == cur and ':' not in f and rng.random() < 0.7:
            return ['ln', n]
        if f.split(':')[0] == cur and ':' in f:
            # a local reference resolves to the *current* instance
            return ['ln', n] if rng.random() < 0.5 else ['ln', f'{f}.{n}']
        return ['ln', f'{f}.{n}']

    def input_ref():
        r = rng.random()
        if r < p_unknown:
            return ['in', rng.choice([f'{cur}.nosuchinput', 'nosuch.a'])]
        own = [(q, t) for q, t in all_inputs if q.split('.')[0].split(':')[0] == cur]
        if own and rng.random() < 0.7:
            q, t = rng.choice(own)
            return ['in', q.split('.', 1)[1]]
        if not all_inputs:
            return ['const', 1.0]
        q, t = rng.choice(all_inputs)
        return ['in', q]

    def leaf():
        r = rng.random()
        if r < 0.2:
            return ['const', rng.choice([0.0, 1.0, 2.5, -1.0, 1000.0, 0.005])]
        if r < 0.55:
            return input_ref()
        if r < 0.95:
            return line_ref()
        return ['unimpl']

    def rec(d):
        if d <= 0:
            return leaf()
        r = rng.random()
        if r < 0.3:
            return ['add', rec(d - 1), rec(d - 1)]
        if r < 0.4:
            return ['sub', rec(d - 1), rec(d - 1)]
        if r < 0.75:
            return ['if', rec(d - 1) if rng.random() < 0.7 else ['gt', rec(d - 1), ['const', 1.0]], rec(d - 1), rec(d - 1)]
        if r < 0.85:
            return ['seq', rec(d - 1), rec(d - 1)]
        if r < 0.9:
            return ['if', rec(d - 1), ['unimpl'], rec(d - 1)]
        return leaf()
    return rec(depth)


# ----------------------------------------------------------------------
def _line(name, body, required=True, t='float', places=2):
    return {'name': name, 'type': t, 'required': required, 'places': places, 'body': ['cast', t, body] if t else body}


def corpus():
    """The shapes the properties name, each a (label, program)."""
    C = []

    def P(label, forms, request, file=None, answers=None, field_names=None, prompt=True):
        C.append((label, {'forms': forms, 'request': request, 'file': file or {}, 'answers': answers or {},
                          'field_names': field_names or [], 'prompt': prompt}))

    fa = lambda lines, inputs=(('a', 'float'), ('b', 'bool')), **kw: dict({'name': 'fa', 'kind': 'form', 'instances': None, 'inputs': [list(x) for x in inputs], 'lines': lines}, **kw)
    fb = lambda lines, inputs=(('a', 'float'),), **kw: dict({'name': 'fb', 'kind': 'form', 'instances': None, 'inputs': [list(x) for x in inputs], 'lines': lines}, **kw)
    P('self-cycle', [fa([_line('1', ['ln', '1'])])], ['fa'])
    P('2-cycle', [fa([_line('1', ['ln', '2']), _line('2', ['ln', '1'], required=False)])], ['fa'])
    P('3-cycle-cross-form', [fa([_line('1', ['ln', 'fb.1'])]), fb([_line('1', ['ln', 'fb.2'], required=False), _line('2', ['ln', 'fa.1'], required=False)])], ['fa'])
    P('diamond', [fa([_line('4', ['add', ['ln', '2'], ['ln', '3']]), _line('2', ['ln', '1'], required=False), _line('3', ['ln', '1'], required=False),
                      _line('1', ['in', 'a'], required=False)])], ['fa'], file={'fa.a': '2.5'})
    P('second-attempt-dependency', [fa([_line('10', ['if', ['gt', ['ln', '1'], ['const', 1.0]], ['ln', '2'], ['const', 0.0]]),
                                        _line('1', ['in', 'a'], required=False), _line('2', ['in', 'a'], required=False)])], ['fa'], answers={'fa.a': '5'})
    P('optional-line-of-unloaded-form', [fa([_line('1', ['ln', 'fb.9'])]), fb([_line('9', ['in', 'a'], required=False), _line('1', ['const', 3.0])])], ['fa'], file={'fb.a': '1'})
    inst = {'name': 'fi', 'kind': 'form', 'instances': ['you', 'spouse'], 'inputs': [['a', 'float']],
            'lines': [_line('1', ['in', 'a']), _line('2', ['ln', '1'], required=False)]}
    P('two-instances', [fa([_line('1', ['add', ['ln', 'fi:you.2'], ['ln', 'fi:spouse.1']])]), inst], ['fa'], file={'fi:you.a': '1', 'fi:spouse.a': '2'})
    P('one-instance-only', [fa([_line('1', ['ln', 'fi:you.2'])]), inst], ['fa'], file={'fi:you.a': '1'})
    P('cross-form-input', [fa([_line('1', ['in', 'fb.a'])]), fb([_line('1', ['const', 1.0])])], ['fa'], file={'fb.a': '4'})
    P('cross-form-input-missing', [fa([_line('1', ['in', 'fb.a'])]), fb([_line('1', ['const', 1.0])])], ['fa'], answers={'fb.a': '4'})
    P('cross-form-input-refused', [fa([_line('1', ['in', 'fb.a'])]), fb([_line('1', ['const', 1.0])])], ['fa'])
    P('unsupported-form-behind-condition-taken', [fa([_line('1', ['if', ['in', 'b'], ['ln', 'nosuch.1'], ['const', 0.0]])])], ['fa'], file={'fa.b': 'yes'})
    P('unsupported-form-behind-condition-not-taken', [fa([_line('1', ['if', ['in', 'b'], ['ln', 'nosuch.1'], ['const', 0.0]])])], ['fa'], file={'fa.b': 'no'})
    P('unimplemented-behind-condition-taken', [fa([_line('1', ['if', ['in', 'b'], ['unimpl'], ['const', 0.0]]), _line('2', ['ln', '1'])])], ['fa'], file={'fa.b': 'yes'})
    P('unimplemented-behind-condition-not-taken', [fa([_line('1', ['if', ['in', 'b'], ['unimpl'], ['const', 0.0]]), _line('2', ['ln', '1'])])], ['fa'], file={'fa.b': 'no'})
    P('unimplemented-optional-only', [fa([_line('1', ['ln', '2']), _line('2', ['unimpl'], required=False)])], ['fa'])
    P('field-names-overlap-required', [fa([_line('1', ['in', 'a']), _line('2', ['ln', '1'], required=False)])], ['fa'], file={'fa.a': '1'}, field_names=['fa.1', 'fa.2'])
    P('missing-then-unimplemented', [fa([_line('1', ['seq', ['in', 'a'], ['unimpl']])])], ['fa'], answers={'fa.a': '1'})
    P('refuse-everything', [fa([_line('1', ['in', 'a']), _line('2', ['in', 'b'], t='bool')])], ['fa'])
    P('no-prompt', [fa([_line('1', ['in', 'a'])])], ['fa'], prompt=False)
    P('late-form-required-lines', [fa([_line('1', ['ln', 'fb.2'])]), fb([_line('1', ['in', 'a']), _line('2', ['const', 2.0], required=False)])], ['fa'])
    P('late-form-required-unimpl', [fa([_line('1', ['ln', 'fb.2'])]), fb([_line('1', ['unimpl']), _line('2', ['const', 2.0], required=False)])], ['fa'])
    P('input-form-copy', [fa([_line('1', ['add', ['ln', 'w:0.box'], ['ln', 'w:1.box']])]),
                          {'name': 'w', 'kind': 'inputform', 'instances': None, 'inputs': [['box', 'float'], ['other', 'str']], 'lines': []}],
      ['fa'], file={'w:0.box': '1', 'w:0.other': 'x'}, answers={'w:1.box': '2', 'w:1.other': 'y'})
    P('unknown-line-of-known-form', [fa([_line('1', ['ln', 'fa.nosuchline'])])], ['fa'])
    P('unknown-input-of-known-form', [fa([_line('1', ['in', 'nosuchinput'])])], ['fa'])
    P('input-of-unknown-form', [fa([_line('1', ['in', 'nosuch.a'])])], ['fa'])
    P('invalid-input-text', [fa([_line('1', ['in', 'a'])])], ['fa'], file={'fa.a': 'abc'})
    P('wrong-type-result', [fa([{'name': '1', 'type': 'float', 'required': True, 'places': 2, 'body': ['weird', 'int7']}])], ['fa'])
    P('blank-results', [fa([{'name': '1', 'type': 'float', 'required': True, 'places': 2, 'body': ['weird', 'none']},
                            {'name': '2', 'type': 'str', 'required': True, 'body': ['weird', 'blank']},
                            {'name': '3', 'type': 'int', 'required': True, 'body': ['weird', 'empty']},
                            {'name': '4', 'type': 'float', 'required': True, 'places': 2, 'body': ['add', ['ln', '1'], ['ln', '3']]}])], ['fa'])
    P('chain-of-waiters', [fa([_line(str(k), ['ln', str(k + 1)], required=(k == 1)) for k in range(1, 9)] + [_line('9', ['in', 'a'], required=False)])], ['fa'], answers={'fa.a': '3'})
    P('many-waiters-one-input', [fa([_line(str(k), ['in', 'a']) for k in range(1, 7)])], ['fa'], answers={'fa.a': '3'})
    P('many-waiters-one-line', [fa([_line(str(k), ['ln', '20']) for k in range(1, 7)] + [_line('20', ['in', 'a'], required=False)])], ['fa'], answers={'fa.a': '3'})
    return C


# ----------------------------------------------------------------------
def enumerate_small(limit=None):
    """Bounded-exhaustive programs: form fa with lines 1 (required), 2, 3
    (optional) and form fb with line 1 (optional) + 2 (required); bodies from a
    closed template list over inputs fa.a (float), fa.b (bool), fb.a (float);
    every present / answered / refused assignment of the three inputs."""
    def T(cur):
        other = 'fb' if cur == 'fa' else 'fa'
        lines = ['1', '2', '3'] if cur == 'fa' else ['1', '2']
        t = [['const', 1.0], ['in', 'a'], ['unimpl'], ['in', f'{other}.a']]
        for ln in lines:
            t.append(['ln', ln])
        t.append(['ln', f'{other}.1'])
        t.append(['add', ['ln', '2'], ['in', 'a']])
        if cur == 'fa':
            t.append(['if', ['in', 'b'], ['ln', '2'], ['ln', '3']])
            t.append(['if', ['in', 'b'], ['unimpl'], ['ln', 'fb.1']])
            t.append(['seq', ['ln', '3'], ['in', 'a']])
        return t
    ta, tb = T('fa'), T('fb')
    n = 0
    for b1, b2, b3 in itertools.product(ta, ta, ta):
        for c1 in tb:
            forms = [
                {'name': 'fa', 'kind': 'form', 'instances': None, 'inputs': [['a', 'float'], ['b', 'bool']],
                 'lines': [_line('1', b1), _line('2', b2, required=False), _line('3', b3, required=False)]},
                {'name': 'fb', 'kind': 'form', 'instances': None, 'inputs': [['a', 'float']],
                 'lines': [_line('1', c1, required=False), _line('2', ['const', 2.0])]},
            ]
            yield n, forms
            n += 1
            if limit and n >= limit:
                return


ASSIGNMENTS = list(itertools.product(['file', 'answer', 'refuse'], repeat=3))


def with_assignment(forms, assign):
    vals = {'fa.a': '2.5', 'fa.b': 'yes', 'fb.a': '4'}
    file, answers = {}, {}
    for (q, text), how in zip(sorted(vals.items()), assign):
        if how == 'file':
            file[q] = text
        elif how == 'answer':
            answers[q] = text
    return {'forms': forms, 'request': ['fa'], 'field_names': [], 'file': file, 'answers': answers, 'prompt': True}
