"""Workload of generated form programs shared by the solver-level monitors."""
import copy
import itertools

from hv import progen, trace, drive, oracles
from hv.common import Result, rng_for, h


def shards(tier, n_random_quick, n_random_thorough, exhaustive=True):
    """Shard specs for the program workload."""
    if tier == 'quick':
        k = 8
        return [{'kind': 'prog', 'part': 'random', 'n': n_random_quick // k, 'slice': s} for s in range(k)] + \
               [{'kind': 'prog', 'part': 'corpus'}] + \
               [{'kind': 'prog', 'part': 'small', 'stride': 997, 'offset': s, 'of': 4} for s in range(4)]
    k = 16
    sp = [{'kind': 'prog', 'part': 'random', 'n': n_random_thorough // k, 'slice': s} for s in range(k)]
    sp.append({'kind': 'prog', 'part': 'corpus'})
    if exhaustive:
        sp += [{'kind': 'prog', 'part': 'small', 'stride': 1, 'offset': s, 'of': 32} for s in range(32)]
    return sp


def programs(spec, seed):
    """Yield (label, prog)."""
    part = spec['part']
    if part == 'corpus':
        for label, prog in progen.corpus():
            yield 'corpus:' + label, prog
    elif part == 'random':
        rng = rng_for('prog', seed, spec['slice'])
        for k in range(spec['n']):
            yield f'random:{seed}:{spec["slice"]}:{k}', progen.random_program(rng)
    elif part == 'small':
        stride, off, of = spec['stride'], spec['offset'], spec['of']
        for n, forms in progen.enumerate_small():
            if stride > 1:
                if n % stride != 0 or (n // stride) % of != off:
                    continue
                assigns = progen.ASSIGNMENTS[::4]
            else:
                if n % of != off:
                    continue
                assigns = progen.ASSIGNMENTS
            for a in assigns:
                yield f'small:{n}:{"".join(x[0] for x in a)}', progen.with_assignment(copy.deepcopy(forms), a)


def shape_sig(prog, out, tv):
    """Signature of a program execution for the distinct-nontrivial count:
    verdict class + the multiset of attempt outcomes + prompt pattern."""
    oc = {}
    for line, atts in tv.attempts.items():
        for a in atts:
            oc[a[0]] = oc.get(a[0], 0) + 1
    return h([drive.verdict_class(out), sorted(oc.items()), len(tv.prompts), len(prog['forms']),
              sorted(len(f.get('lines', [])) for f in prog['forms'])], 10)


def nontrivial(tv):
    """A run is non-trivial when at least one line had to wait (for a line or an
    input) or signalled unimplemented, i.e. the solver's bookkeeping was used."""
    for atts in tv.attempts.values():
        for a in atts:
            if a[0] != 'value':
                return True
    return False


def traced_run(prog, schedule_seed=None, form_order=None, ceiling=4000):
    with trace.Tracer(ceiling=ceiling) as t:
        out = progen.run_program(prog, schedule_seed=schedule_seed, tracer=t, form_order=form_order)
    tv = trace.TraceView(t.events)
    return out, tv, t


def prog_replay(label, prog, schedule_seed=None, extra=None):
    r = {'engine': 'progen', 'label': label, 'program': prog, 'schedule_seed': schedule_seed}
    if extra:
        r.update(extra)
    return r
