#!/bin/bash
# usage: tools/selftest_par.sh [reverts|mutants|seeded|all] [jobs]    the list of tools/selftest.sh, <jobs> patches at a time
cd /verif
WHAT="${1:-all}"; J="${2:-4}"
SELFTEST_LIST=1 tools/selftest.sh "$WHAT" | grep -v "^ADJUDICATED" | xargs -P "$J" -L 1 tools/selftest.sh one 2>&1 | grep -E "^(CAUGHT|MISSED|SKIP)" | tee /tmp/hv_selftest_par.log
SELFTEST_LIST=1 tools/selftest.sh "$WHAT" | grep "^ADJUDICATED"
n=$(grep -c "^CAUGHT" /tmp/hv_selftest_par.log); m=$(grep -c "^MISSED" /tmp/hv_selftest_par.log); k=$(grep -c "^SKIP" /tmp/hv_selftest_par.log)
echo "selftest: caught=$n missed=$m skipped=$k"; rm -f /tmp/hv_selftest_par.log
[ "$m" -eq 0 ] && [ "$k" -eq 0 ]
