#!/venv/bin/python
"""Regenerates MANIFEST.json from the table below (and validates it)."""
import json
import os
import sys

HERE = os.path.dirname(os.path.dirname(os.path.abspath(__file__)))

SETUP = ("/venv/bin/pip install --quiet --no-index --find-links /opt/veriftools/wheels --target .deps icontract "
         "&& /venv/bin/python -c \"import sys; sys.path[:0]=['.deps','.']; import icontract, hv.common\"")

BASE_OFF = ("cd /repo && /venv/bin/python -m pytest -ra -q -p no:cacheprovider --timeout=900 "
            "--continue-on-collection-errors")

# id -> (level category, technique, level text, level note, design ref)
CHECKS = {
    'C07': ('exploration',
            'runtime postcondition monitor on figure_tax() against a statutory reference model; exhaustive whole-dollar sweep',
            'Every call of the real figure_tax() made by the workload is compared with a reference computed only from the '
            'statutory brackets and the IRS table layout. Quick: every table row at four points, every bracket edge and '
            'neighbours, 2000 log-uniform amounts to 1e12, all five statuses, three years. Thorough: every whole dollar in '
            '[0,100000) x 5 statuses x 3 years (exhaustive) plus 100000 sampled amounts above per year. Held = on those calls.',
            'Trusts hv/statutory.py (transcribed Rev. Proc. brackets) and the half-up rounding rule of the IRS tables.',
            'DESIGN.md section 4, C07'),
}

NOT_YET = {}


def build():
    checks = []
    for pid in sorted(CHECKS):
        cat, tech, text, note, ref = CHECKS[pid]
        checks.append({
            'property_id': pid,
            'quick_cmd': f'./check {pid} --tier quick',
            'thorough_cmd': f'./check {pid} --tier thorough',
            'evidence_file': f'evidence/{pid}.json',
            'replay_cmd_template': f'./check {pid} --replay {{path}}',
            'engine': 'hv',
            'level_claimed': {'category': cat, 'text': text, 'design_ref': ref},
            'level_note': note,
            'technique': tech,
        })
    props = [json.loads(l)['id'] for l in open(os.path.join(HERE, 'properties.jsonl'))]
    na = []
    for pid in props:
        if pid not in CHECKS:
            na.append({'property_id': pid, 'reason': NOT_YET.get(pid, 'check not built yet in this round; see DESIGN.md for the planned monitor')})
    m = {
        'version': 1,
        'setup_cmd': SETUP,
        'hooks': {
            'guard': 'HABUTAX_VERIF',
            'enable': 'no source hooks: every monitor wraps public classes/functions of the working tree at run time (VERIF_REPO=/repo)',
            'baseline_off_cmd': BASE_OFF,
            'source_commits': [],
            'add_only': True,
        },
        'engines': [
            {'name': 'hv', 'path': 'hv/', 'serves_properties': sorted(CHECKS),
             'kind_free_text': 'runtime monitors (trace wrappers, reference models, contracts, fault injection) run by ./check in watchdogged shards'},
        ],
        'checks': checks,
        'not_applicable': na,
        'notes': 'Technique family: runtime monitoring. Exit 0 held / 1 VIOLATION / 2 INCONCLUSIVE. known_findings.json lists genuine defects (fixed ones suppress nothing).',
    }
    return m


if __name__ == '__main__':
    m = build()
    with open(os.path.join(HERE, 'MANIFEST.json'), 'w') as f:
        json.dump(m, f, indent=1)
    try:
        import jsonschema
        jsonschema.validate(m, json.load(open('/root/.vp/MANIFEST.schema.json')))
        print('MANIFEST.json valid;', len(m['checks']), 'checks,', len(m['not_applicable']), 'not claimed')
    except ImportError:
        print('written (jsonschema not available for validation)')
