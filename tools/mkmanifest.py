#!/venv/bin/python
"""Regenerates MANIFEST.json from the table below (and validates it)."""
import json
import os
import sys

HERE = os.path.dirname(os.path.dirname(os.path.abspath(__file__)))

SETUP = ("/venv/bin/pip install --quiet --no-index --find-links /opt/veriftools/wheels --target .deps icontract "
         "&& /venv/bin/python -c \"import sys; sys.path[:0]=['.deps','.']; import icontract, hv.common\"")

BASE_OFF = ("cd /repo && /venv/bin/python -m pytest -ra -q -p no:cacheprovider --timeout=900 "
            "--continue-on-collection-errors")

# id -> (level category, technique, level text, level note, design ref)
CHECKS = {
    'C02': ('exploration',
            'per-line rule evaluation on every produced solution; rules compiled from the official wording in the bundled templates (or cited transcriptions)',
            'For each produced solution (and a second pass in which every line of every participating form is demanded, so each rule\'s operands exist) every line that has an official rule is '
            'recomputed from the other lines of the same solution: about 100 rules per year are parsed from the accessibility text of the template field the line is written into (add / subtract with floor / '
            'multiply by the printed rate / smaller of / carry in and out), about 90 per year are cited transcriptions (capital-gain worksheet, Form 6251 worksheet, Credit Limit Worksheet A, '
            '"see instructions" lines of Form 1040, NC D-400 and its schedules). Required-line rules (a part the instructions require - Schedule B Part III, the capital-gain worksheet, Form 8606 lines 15b/15c - may not be left out of a solved return) and the N.C. use-tax table are transcribed too; purpose-built returns put amounts exactly on band edges, table limits and multiples. Evidence lists rules never exercised non-trivially as not observed.',
            'Transcribed rules are weaker evidence (labelled); carries are asserted only for lines the return uses.',
            'DESIGN.md section 4, C02'),
    'C08': ('exploration',
            'directed scenarios observing each published amount through an echo line, a Form.threshold lookup, or an outcome flip just below / at the official amount',
            'Exhaustive over about 470 (year, amount, status) triples of hv/statutory.py (standard deductions, capital-gain breakpoints, AMT exemption / phase-out / 28 % point, child-credit amounts '
            'and phase-outs, Additional Medicare thresholds, HSA limits, SALT cap, QBI / EIC / saver\'s-credit limits, Form 1116 ceiling, Schedule B threshold, 2021 recovery-rebate amounts, NC rate, '
            'NC standard and child deductions at every AGI band edge): each is read from a line that displays it, from the threshold table, or decided by two solves placed one dollar apart around the '
            'official amount. All triples must be observed (floor 98 %).',
            'Trusts hv/statutory.py; the code may compare a conservative quantity for QBI (asserted only where the law fixes the outcome).',
            'DESIGN.md section 4, C08'),
    'C09': ('exploration',
            'gate-read checker over traces (READ_INPUT of a curated gate with the affirmative answer => verdict not solved) with directed flips',
            'spec/gates.py curates ~70 gate inputs per year from the input descriptions. On every traced solve, a consultation of a gate with the affirmative answer '
            '(a READ_INPUT by a line, or a read of an input form\'s echo line by another form) must not coexist with a solved verdict. Each gate is flipped in up to 3 (quick) / 10 '
            '(thorough) base scenarios that solve and read it; limit-type gates (foreign tax above the Form 1116 ceiling, more than 14 payers with Schedule B required, HSA contribution '
            'above the limit alone, together with the employer\'s contribution, and with family coverage) are directed cases; thorough adds random multi-gate flips. After a flip that reaches its gate the same return is also solved in two calls on one Solver (what the first call found is not forgotten). A fixed pool of witness returns (independent of VERIF_SEED) is compared with the committed list spec/gate_witness.json of (year, gate) pairs it consults: a listed gate that is no longer consulted is reported (a dropped gate). Evidence lists gates never read and gates flipped but never reached.',
            'The curated list is the trusted base; a gate not read imposes nothing; aborts count as not solved.',
            'DESIGN.md section 4, C09'),
    'C10': ('exploration',
            'forced execution of every line definition with recording accessors resolving each key against the year\'s catalogue, arm coverage measured by sys.monitoring BRANCH events; exception-class monitor on real solves',
            'The property is static; this family answers it by executing every line definition of every form instance of every year 60 (quick) / 400 (thorough) times with typed values drawn '
            'to flip conditions, resolving every input/line/form/threshold/enum reference against the catalogue, and reporting measured arm coverage (about 95 %); unreached arms are listed as '
            'not observed. Real solves (personas; every form requested next to Form 1040 with all its optional lines) are monitored for RecursionError, solver assertions, AttributeError, KeyError, NameError and unresolved inputs.',
            'A reference is only observed when its arm executes; deliberately absent forms: 1040_s2, 1099-oid.',
            'DESIGN.md section 4, C10'),
    'C15': ('exploration',
            'invariant monitor on the typed solution of every solved explored return (balance equations, curated non-negative lines, ratio range)',
            'For every solved persona return: federal overpayment minus owed equals payments minus tax, not both positive, refund plus applied equals overpayment; the NC analogue on both '
            'branches; every line on the curated non-negative list is >= 0; Form 8606 line 10 in [0,1]. Floors require both refund and owed branches in every year. Every third return is repeated with the withholding moved so that payments and tax differ by a dollar, a cent, nothing, 50+ cents (part or all of the refund applied to next year). Purpose-built returns (net capital gain above taxable income with REIT dividends, a foreign tax credit above a tiny tax, advance child-credit payments, N.C. overpayments with designations around them, Form 8606 parts, high earners ...) run next to the random personas.',
            'Personas supply non-negative amounts; the non-negative list is curated in hv/monitors/c15.py.',
            'DESIGN.md section 4, C15'),
    'C16': ('exploration',
            'metamorphic monitor over pairs of real solves (copy renumbering, wage / deduction / withholding increments)',
            'For solved bases: every permutation (quick: two) of the instance numbers of W-2/1099/1098 copies must change nothing but the renamed sections and the order of Schedule B listing rows; '
            'wage increments (1, 50, 1000, 25000) must not lower line 24; increments of each deductible input must not raise it; increments of withholding must move line 34 - line 37 by exactly that amount, and increments of N.C. tax withheld (W-2 box 17, the state boxes of the 1099s) the N.C. overpayment minus tax due; the N.C. income tax and total N.C. tax are checked for the same monotonicity and wages are stepped across every edge of the N.C. child-deduction bands and over the limits and the end of the N.C. use-tax table; second state rows of the statements included. '
            'Only pairs in which both returns solve are compared.',
            'Monotonicity only for the relations the property names; 1-cent tolerance.',
            'DESIGN.md section 4, C16'),
    'C11': ('exploration',
            'runtime contract monitor on InputStore reads with harness-side ground truth and an independent acceptance model (icontract postconditions on Input.value)',
            'Every read of an input made by the workload is judged against the presence and raw text the harness reads directly from the ConfigParser: '
            'a value requires the key to be present, the input\'s own validator to accept the text, the declared Python type, a finite number, and equality with '
            'an independent model of the type; MissingInput requires absence; InvalidInput requires invalid text. Workload: adversarial strings per input type '
            '(whitespace, case, signs, exponents, nan/inf, underscores, unicode digits, near-miss enumeration names; 3000 per type quick, 100000 thorough), by file and '
            'by prompt, the CLI prompt loop with invalid-then-valid answers, every shipped input with type corpora, and every input read of explored real returns (also with the statement copies requested by name, last first). Histories on one store: read - delete - read (then not supplied) and read - replace - read (then the new text decides). A line that read an absent or rejected input and still answered is reported (the signal was swallowed).',
            "Numeric text is valid iff Python int()/float() accepts it and it is finite; '%' is outside the alphabet (C14).",
            'DESIGN.md section 4, C11'),
    'C14': ('exploration',
            'write/read-back monitor: typed values observed on the PDF filler\'s store while fill-pdfs loads the written solution, compared with the values the solve stored',
            'For every solved explored return (all years) the solution is written exactly as the CLI writes it and read back by `habutax fill-pdfs` (stand-in pdftk); '
            'every value loaded must equal the value solved (numbers/booleans exactly, enumerations by member, text up to surrounding whitespace). A closed list of value '
            'classes for every line type and decimal-place setting goes through the same path. The real CLI is run per year to check the file carries its tax year and '
            'only that year\'s templates are used; the --solution path is one used before for a larger return (the file must be exactly the new solution); the partial solution of an unsolved return carries the year as well; every third return is reached in two calls on one Solver with the intermediate solution looked at.',
            'Known findings: ConfigParser interpolation of % and comment-like continuation lines (listed in known_findings.json).',
            'DESIGN.md section 4, C14'),
    'C17': ('exploration',
            'exhaustive live inspection of every catalogued form instance, every (threshold table, status) lookup through Form.threshold, and CLI listings parsed back',
            'Every (year, class, allowed instance) is instantiated; tax year, unique name, metadata, duplicate-free lower-case dot-free input and line names are asserted on the '
            'live object; every status-keyed threshold table is looked up through the real Form.threshold for each of the five statuses and must have exactly one matching entry; '
            '`list-forms` (with filters) and `list-form-inputs` for every form and instance are run in-process and the template is parsed back with ConfigParser. Purpose-built returns are solved with every line of every participating form asked for while Form.threshold is wrapped: a look-up a line definition makes that raises is reported with its call site.',
            'Exhaustive over the catalogue as shipped; thresholds are captured from the argument each form passes to Form.__init__.',
            'DESIGN.md section 4, C17'),
    'C18': ('exploration',
            'join of every mapping (live PDFField objects and FDF entries captured at a stand-in pdftk) with the field tree parsed from the bundled templates',
            'All 1665 mappings: the target exists in the template, kinds agree, check-box export values for every value of the driving line are template export values, '
            'length limits agree, no field is mapped twice, exclusive groups have at most one box on for every value of the driving line, every fileable form has a template '
            'and mappings, every mapped line exists, and where the template\'s accessibility text (or NC field-name suffix) carries a line label in reading order the mapped line is that line. Fills of real solved '
            'returns check groups whose boxes are driven by several lines (NC filing status, yes/no pairs). A number printed across two boxes (Form 8606 line 10) must read, for every value, as the value rounded to the decimals printed. Yes/No boxes are paired by their place in the template (widget rectangles) and must be driven by one line; a text of exactly the template limit is accepted whatever its characters, one more character refused.',
            'Trusts hv/pdfspec.py and a three-entry alias table; labels out of the template\'s own reading order are ignored and counted.',
            'DESIGN.md section 4, C18'),
    'C19': ('exploration',
            'FDF tokenizer and argv log at a stand-in pdftk placed first on PATH, against an independent filing table',
            'Every solved explored return is filled through PDFFiller; the captured FDF is tokenised under PDF string syntax and must decode to exactly the mapped text of every field; '
            'the filled forms must be exactly those needing filing (never worksheets or input forms), once each, concatenated by jurisdiction and the attachment sequence printed in the '
            'templates; adversarial printable-ASCII text (parentheses, backslashes, quotes, runs of blanks) is injected through every string input; over-long values and a failing pdftk must stop the fill. The real `fill-pdfs` command is run on written solutions: its filing set and every text box against the values the solve produced.',
            'Expected text of a box is the mapping applied to the value the filler loaded.',
            'DESIGN.md section 4, C19'),
    'C20': ('fault_enumeration',
            'fault injection into the real CLI session at every prompt index, followed by a file-state checker and a re-run',
            'For each explored interactive session (persona x initial file) and EVERY prompt index k: Ctrl-C at the prompt, end of input at the prompt, invalid answer then Ctrl-C; '
            'plus a line definition raising at sampled evaluation indices and an unsupported form being reached. After each faulted `solve --prompt-missing --writeback-input` the file '
            'must parse, hold every value it held before and every answer given before the fault, and the re-run must not ask for any of them again. A sample of fault points is repeated through the real child process '
            'on a pseudo-terminal (real SIGINT / end of input). A prompt loop that keeps calling input() after input ended is reported by a logical bound. Every other session starts from an annotated file (comment lines and a notes section), so the rewritten file is shorter than what was on disk.',
            'In-process CLI with builtins.input replaced; the answer being typed at the fault point is not required to persist.',
            'DESIGN.md section 4, C20'),
    'C01': ('exploration',
            'offline trace checker (verdict vs recorded unimplemented/missing/blocked events) + executable reference model of generated form programs',
            'Every solve of the workload runs under boundary wrappers; the oracle recomputes from the event log the set of lines that signalled '
            'unimplemented, inputs still missing and demanded lines without a value, and compares with solve()\'s verdict and the three diagnostics; '
            'for generated form programs (random, a named corpus, and a bounded-exhaustive family x all present/answered/refused assignments) the '
            'verdict and diagnostic sets must equal a denotational reference interpreter. Real returns (personas incl. purpose-built ones) are solved with refusal from random prompt indices, gate flips, '
            'unsupported forms; a CLI layer compares the verdict line and the failure report printed by `habutax solve` with the trace of the same file (full, missing, flipped, missing+flipped inputs). Held = on the executions listed in evidence.',
            'Trusts the wrappers to see every read/store/not-implemented call and the reference interpreter as the intended semantics.',
            'DESIGN.md section 4, C01'),
    'C03': ('exploration',
            'runtime re-evaluation monitor: every stored line re-run through its own definition on the final stores, under permuted schedules',
            'After each traced solve (natural order and seeded permutations of the attempt order) every stored line is re-evaluated with the real '
            'Field.value on accessors over a fresh InputStore of the final configuration and the final value store, both on the stored typed values and on the values as the returned solution carries them '
            '(to_string/from_string), and must reproduce them exactly; online, every read must return the latest store and no key may change value; a line that asked for a line without a value and still answered is reported; histories: solve - change inputs - solve again on the same store object, the same store handed to a solver of another tax year, and every form the return pulls in by reference requested up front (all their lines outstanding from the start).',
            'Assumes line definitions are pure; schedule permutation is by replacing habutax.solver.sort_keys.',
            'DESIGN.md section 4, C03'),
    'C04': ('exploration',
            'offline closure checker over READ_LINE events + reference demand closure of generated programs',
            'For each traced solve the demand closure is rebuilt from the request outwards (required lines of the requested forms, what those lines read, the forms these reads bring in, ...); a successful solution and '
            'solver.forms must equal it exactly, a partial one must stay inside it; generated programs are also compared with the reference closure; at the command line the solution written for a request '
            '(incl. requests that do not lead to Form 1040) must equal the API closure of the same request; every shipped form is also requested alone and in pairs without Form 1040, copies are requested by name, heavily used inputs are typed at the prompt, and returns are reached in two calls on one Solver.',
            'Trusts READ_LINE events inside attempts to be all references made.',
            'DESIGN.md section 4, C04'),
    'C05': ('exploration',
            'schedule perturbation + metamorphic comparison of canonical outcomes across variants',
            'Each case is solved under the natural order, K seeded permutations of the attempt order, permuted request order, permuted file layout, '
            'all-in-file / all-at-prompt / split / file-on-disk variants, line renamings and three PYTHONHASHSEED values (separate processes); verdict, typed values, solution keys and diagnostic sets must coincide. At the command line the same file and the same set of --form options are given in every order (verdict, printed diagnostics, written solution); the same fixed returns are solved in three different sequences in three processes (what was solved before in the same process is not an input). '
            'Evidence counts distinct attempt sequences actually produced.',
            'With a refusing prompt only solved/not-solved is compared (the questions asked legitimately depend on order).',
            'DESIGN.md section 4, C05'),
    'C06': ('exploration',
            'step-bound and conservation monitor on traced solves + history checker of the real DependencyTracker against a sequential model',
            'Solves of cyclic, self-referential, unknown-name and refusing-prompt programs (refusal from every prompt index k) run under a logical work '
            'ceiling; per-line evaluation bound, one prompt per input, and end-state conservation (no waiter left on a satisfied dependency) are checked. '
            'The real DependencyTracker is driven by random histories (length <= 40) and bounded-exhaustive ones (quick: length <= 5, thorough: length <= 7) '
            'of add_unmet/meet/partial and complete drains and compared step by step with a sequential model. Polls of has_met/has_unmet are counted as logical ticks (a main loop spinning without evaluating anything '
            'hits the tick ceiling); command-line sessions in which the user goes away (EOF / Ctrl-C at question k) are bounded by calls of input() per question and by repetitions of the same question. A line announced as met without a value, a line dropped after an unknown input definition, and prompt callbacks handing back rejected text are reported.',
            'Termination is decided as a logical step bound; watchdog expiry is inconclusive. Per-line bound = multiplicity x (1 + distinct waits) + 1.',
            'DESIGN.md section 4, C06'),
    'C12': ('exploration',
            'postcondition monitor on stored/read line values against a ten-line convention model; exhaustive awkward-value matrix',
            'Generated lines return every awkward Python value (bool for int, int for money, subclasses, None, blank strings, -0.0, 1e22, ...) for every '
            'line type and places in {0,2,5} (exhaustive matrix): the stored value must equal the convention model, or the solve must abort with a '
            'TypeError naming the line; every STORE_LINE/READ_LINE of all other explored solves is checked for exact type and rounding. Every line of every shipped form is also demanded by name next to Form 1040 from filers with no statements beyond a W-2 and from persona filers: a shipped definition whose answer the framework rejects on a valid return is reported (the property quantifies over the shipped definitions).',
            'Trusts hv/progen.convention as the specified convention.',
            'DESIGN.md section 4, C12'),
    'C13': ('exploration',
            'online checker of prompt events against preceding missing-read events + three-run histories (solve, write back, solve, prune)',
            'Each PROMPT must be preceded by a READ_INPUT(missing) of that input by the quoted lines, for an input not supplied and not asked before; '
            'without refusal the asked set must equal the reference set of read-and-absent inputs; run 2 on the written-back inputs must ask nothing '
            'and give the identical solution; run 3 with never-read inputs deleted must give the identical outcome. The same history runs through the real CLI (write-back file, --solution), where the text of every '
            'prompt is also compared with the waiting lines the solver passed to the prompt function; half of these histories start from a nearly complete file (every section present, a few values missing) and assert that the answers are in the file after run 1.',
            'Answers stay inside ConfigParser\'s safe alphabet (INI artefacts are C14\'s).',
            'DESIGN.md section 4, C13'),
    'C07': ('exploration',
            'runtime postcondition monitor on figure_tax() against a statutory reference model; exhaustive whole-dollar sweep',
            'Every call of the real figure_tax() made by the workload is compared with a reference computed only from the '
            'statutory brackets and the IRS table layout. Quick: every table row at four points, every bracket edge and '
            'neighbours, 2000 log-uniform amounts to 1e12, all five statuses, three years. Thorough: every whole dollar in '
            '[0,100000) x 5 statuses x 3 years (exhaustive) plus 500000 sampled amounts above per year. The same postcondition wraps the name figure_tax as bound in the Form 1040 and capital-gain '
            'worksheet modules while real returns are solved (including returns whose line 11 - line 14 is one ulp below a table row boundary), and runs in a `python -O` child process (assertions off). Held = on those calls.',
            'Trusts hv/statutory.py (transcribed Rev. Proc. brackets) and the half-up rounding rule of the IRS tables.',
            'DESIGN.md section 4, C07'),
}

NOT_YET = {}


def build():
    checks = []
    for pid in sorted(CHECKS):
        cat, tech, text, note, ref = CHECKS[pid]
        checks.append({
            'property_id': pid,
            'quick_cmd': f'./check {pid} --tier quick',
            'thorough_cmd': f'./check {pid} --tier thorough',
            'evidence_file': f'evidence/{pid}.json',
            'replay_cmd_template': f'./check {pid} --replay {{path}}',
            'engine': 'hv',
            'level_claimed': {'category': cat, 'text': text, 'design_ref': ref},
            'level_note': note,
            'technique': tech,
        })
    props = [json.loads(l)['id'] for l in open(os.path.join(HERE, 'properties.jsonl'))]
    na = []
    for pid in props:
        if pid not in CHECKS:
            na.append({'property_id': pid, 'reason': NOT_YET.get(pid, 'check not built yet in this round; see DESIGN.md for the planned monitor')})
    m = {
        'version': 1,
        'setup_cmd': SETUP,
        'hooks': {
            'guard': 'HABUTAX_VERIF',
            'enable': 'no source hooks: every monitor wraps public classes/functions of the working tree at run time (VERIF_REPO=/repo)',
            'baseline_off_cmd': BASE_OFF,
            'source_commits': [],
            'add_only': True,
        },
        'engines': [
            {'name': 'hv', 'path': 'hv/', 'serves_properties': sorted(CHECKS),
             'kind_free_text': 'runtime monitors (trace wrappers, reference models, contracts, fault injection) run by ./check in watchdogged shards'},
        ],
        'checks': checks,
        'not_applicable': na,
        'notes': 'Technique family: runtime monitoring. Exit 0 held / 1 VIOLATION / 2 INCONCLUSIVE. known_findings.json lists genuine defects (fixed ones suppress nothing).',
    }
    return m


if __name__ == '__main__':
    m = build()
    with open(os.path.join(HERE, 'MANIFEST.json'), 'w') as f:
        json.dump(m, f, indent=1)
    try:
        import jsonschema
        jsonschema.validate(m, json.load(open('/root/.vp/MANIFEST.schema.json')))
        print('MANIFEST.json valid;', len(m['checks']), 'checks,', len(m['not_applicable']), 'not claimed')
    except ImportError:
        print('written (jsonschema not available for validation)')
