#!/bin/bash
# usage: tools/trymut.sh <patch-file|-e 'python-edit-expr'> <ID> [tier]
# Makes a scratch copy of /repo's working tree under $TMPDIR, applies the patch, runs the check with VERIF_REPO, removes the copy.
set -u
P="$(realpath "$1")"; ID="$2"; TIER="${3:-quick}"
D=$(mktemp -d /tmp/hvmut.XXXXXX)
rsync -a --exclude .git --exclude '*.egg-info' --exclude __pycache__ /repo/ "$D/"
if ! (cd "$D" && patch -p1 -s < "$P"); then echo "PATCH FAILED"; rm -rf "$D"; exit 3; fi
if [ "${RUNTESTS:-0}" = "1" ]; then (cd "$D" && /venv/bin/python -m pytest -q -p no:cacheprovider --timeout=900 --continue-on-collection-errors 2>&1 | tail -1); fi
(cd /verif && VERIF_REPO="$D" VERIF_EVIDENCE_DIR="$D/.ev" VERIF_REPLAY_DIR="$D/.rp" ./check "$ID" --tier "$TIER" 2>&1 | grep -E "VIOLATION|violation key|HELD|INCONCLUSIVE|KNOWN" | head -${LINES_MAX:-8})
rc=$?
rm -rf "$D"
