#!/bin/bash
# usage: tools/seedeval.sh <PROP> <k> [check ids...]   evaluates /tmp/wt_<PROP>/SEED/patch<k>.diff
set -u
P="$1"; K="$2"; shift 2
CHECKS="${*:-$P}"
SRC=/tmp/wt_$P/SEED
DST=/verif/seeded/$P-$K
mkdir -p "$DST"
cp "$SRC/patch$K.diff" "$DST/patch.diff"; cp "$SRC/demo$K.py" "$DST/demo.py"; cp "$SRC/notes$K.md" "$DST/notes.md" 2>/dev/null
D=$(mktemp -d /tmp/hvseed.XXXXXX)
rsync -a --exclude .git --exclude '*.egg-info' --exclude __pycache__ --exclude SEED /repo/ "$D/"
if ! (cd "$D" && patch -p1 -s --no-backup-if-mismatch < "$DST/patch.diff"); then echo "RESULT $P-$K PATCH-DOES-NOT-APPLY"; rm -rf "$D"; exit 3; fi
TESTS=$(cd "$D" && PYTHONPATH="$D" /venv/bin/python -m pytest -q -p no:cacheprovider --timeout=900 --continue-on-collection-errors 2>&1 | tail -1)
(cd "$D" && PYTHONPATH="$D" timeout 600 /venv/bin/python "$DST/demo.py" >"$D/.demo_with" 2>&1); DW=$?
(cd /repo && PYTHONPATH=/repo timeout 600 /venv/bin/python "$DST/demo.py" >"$D/.demo_without" 2>&1); DO=$?
echo "== $P-$K tests: $TESTS | demo with change: exit $DW | without: exit $DO"
CAUGHT=""
for C in $CHECKS; do
  OUT=$(cd /verif && VERIF_REPO="$D" VERIF_EVIDENCE_DIR="$D/.ev" VERIF_REPLAY_DIR="$D/.rp" timeout 1200 ./check "$C" --tier "${TIER:-quick}" 2>&1)
  V=$(echo "$OUT" | grep -c "^VIOLATION")
  echo "   check $C: $V VIOLATION lines; $(echo "$OUT" | grep -E "violation key" | head -2 | cut -c1-260)"
  echo "$OUT" | grep -E "^INCONCLUSIVE" | head -1 | cut -c1-200
  [ "$V" -gt 0 ] && CAUGHT="$CAUGHT $C"
done
echo "RESULT $P-$K tests=[$TESTS] demo_with=$DW demo_without=$DO caught_by=[$CAUGHT ]"
/venv/bin/python - "$DST" "$P" "$K" "$TESTS" "$DW" "$DO" "$CAUGHT" "$CHECKS" <<'PYEOF'
import json, os, sys
dst, prop, k, tests, dw, do, caught, checks = sys.argv[1:9]
notes = open(os.path.join(dst, 'notes.md')).read() if os.path.exists(os.path.join(dst, 'notes.md')) else ''
meta = {
    'breaks_property': prop,
    'origin': 'written by an independent sub-agent that saw only the property text and a scratch worktree of the repository (nothing from /verif)',
    'needs_to_manifest': notes.strip()[:1500],
    'what_was_run': [
        'patch -p1 < patch.diff on a scratch copy of /repo (working tree at evaluation time)',
        'pytest -q --continue-on-collection-errors on the scratch copy -> ' + tests,
        f'demo.py on the scratch copy (with the change) -> exit {dw}; on /repo (without) -> exit {do}',
        'VERIF_REPO=<scratch> ./check <id> --tier quick for: ' + checks,
    ],
    'confirmed_breaks_and_passes_tests': tests.startswith('55 passed') and dw != '0' and do == '0',
    'caught_by_checks': caught.split(),
    'checks_run': checks.split(),
}
json.dump(meta, open(os.path.join(dst, 'meta.json'), 'w'), indent=1)
PYEOF
rm -rf "$D"
