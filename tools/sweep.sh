#!/bin/bash
# usage: tools/sweep.sh <tier> <seed>...   runs every check for each seed; prints anything that is not HELD
cd /verif
TIER="$1"; shift
for S in "$@"; do
  for C in C01 C02 C03 C04 C05 C06 C07 C08 C09 C10 C11 C12 C13 C14 C15 C16 C17 C18 C19 C20; do
    OUT=$(VERIF_SEED=$S VERIF_EVIDENCE_DIR=/tmp/hv_sweep_ev VERIF_REPLAY_DIR=/tmp/hv_sweep_rp ./check $C --tier $TIER 2>&1); rc=$?
    if [ $rc -ne 0 ]; then echo "seed=$S $C exit=$rc"; echo "$OUT" | grep -E "violation key|INCONCLUSIVE|VIOLATION" | head -5 | cut -c1-300; fi
  done
  echo "seed $S done"
done
rm -rf /tmp/hv_sweep_ev /tmp/hv_sweep_rp
