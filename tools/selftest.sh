#!/bin/bash
# Sensitivity self-test: every recorded break must make its property's quick check print VIOLATION.
#  - mutants/reverts/<commit>.patch : the original defect re-introduced (reverse of each "fix:" commit)
#  - mutants/*.patch                : hand-written breaks
#  - seeded/<ID>-k/patch.diff       : breaks written by independent sub-agents
# usage: tools/selftest.sh [reverts|mutants|seeded|all]      (tools/selftest_par.sh <what> <jobs> runs the same list <jobs> at a time)
cd /verif
WHAT="${1:-all}"
fail=0
run() { # patch, checks...
  if [ -n "$SELFTEST_LIST" ]; then echo "$@"; return; fi
  P="$(realpath "$1")"; shift
  D=$(mktemp -d /tmp/hvself.XXXXXX)
  rsync -a --exclude .git --exclude '*.egg-info' --exclude __pycache__ /repo/ "$D/"
  if ! (cd "$D" && patch -p1 -s --no-backup-if-mismatch < "$P" >/dev/null 2>&1); then echo "SKIP (does not apply) $P"; rm -rf "$D"; return; fi
  ok=""
  for C in "$@"; do
    n=$(VERIF_REPO="$D" VERIF_EVIDENCE_DIR="$D/.ev" VERIF_REPLAY_DIR="$D/.rp" ./check "$C" --tier quick 2>&1 | grep -c "^VIOLATION")
    [ "$n" -gt 0 ] && ok="$ok $C"
  done
  if [ -n "$ok" ]; then echo "CAUGHT by[$ok ] $P"; else echo "MISSED (checked: $*) $P"; fail=1; fi
  rm -rf "$D"
}
if [ "$WHAT" = reverts ] || [ "$WHAT" = all ]; then
  python3 -c "
import json
for e in json.load(open('mutants/reverts/index.json')): print(e['commit'], ' '.join(e['properties']))" | while read c props; do run mutants/reverts/$c.patch $props; done
fi
if [ "$WHAT" = mutants ] || [ "$WHAT" = all ]; then
  for p in mutants/*.patch; do id=$(basename $p | cut -c1-3 | tr a-z A-Z); run $p $id; done
fi
if [ "$WHAT" = seeded ] || [ "$WHAT" = all ]; then
  for d in seeded/*/; do
    id=$(basename $d | cut -c1-3)
    # the checks recorded as catching it (the property's own check unless the change was adjudicated as belonging to another property)
    cs=$(python3 -c "
import json,sys
m=json.load(open('$d/meta.json'))
c=m.get('caught_by_checks') or []
print('-' if (not c and m.get('adjudication')) else ' '.join(c if '$id' not in c else ['$id']) or '$id')")
    if [ "$cs" = "-" ]; then echo "ADJUDICATED (no check is expected to fire) $d"; continue; fi
    run $d/patch.diff $cs
  done
fi
if [ "$WHAT" = one ]; then shift; run "$@"; fi
exit $fail
