#!/bin/bash
# Behaviour-preserving changes (benign/<name>/patch.diff, written by independent sub-agents told to keep all twenty
# properties true): every quick check must stay silent (exit 0) on them.  usage: tools/benign.sh [name ...]
cd /verif
fail=0
names=("$@"); [ ${#names[@]} -eq 0 ] && names=($(ls benign))
for n in "${names[@]}"; do
  P="$(realpath benign/$n/patch.diff)"
  D=$(mktemp -d /tmp/hvben.XXXXXX)
  rsync -a --exclude .git --exclude '*.egg-info' --exclude __pycache__ /repo/ "$D/"
  if ! (cd "$D" && patch -p1 -s --no-backup-if-mismatch < "$P" >/dev/null 2>&1); then echo "SKIP (does not apply) $n"; rm -rf "$D"; continue; fi
  T=$(cd "$D" && PYTHONPATH="$D" /venv/bin/python -m pytest -q -p no:cacheprovider --timeout=900 --continue-on-collection-errors 2>&1 | tail -1)
  bad=""
  for C in C01 C02 C03 C04 C05 C06 C07 C08 C09 C10 C11 C12 C13 C14 C15 C16 C17 C18 C19 C20; do
    OUT=$(VERIF_REPO="$D" VERIF_EVIDENCE_DIR="$D/.ev" VERIF_REPLAY_DIR="$D/.rp" ./check "$C" --tier quick 2>&1); rc=$?
    if [ $rc -ne 0 ]; then bad="$bad $C(exit=$rc)"; echo "$OUT" | grep -E "violation key|INCONCLUSIVE" | head -3 | cut -c1-400 | sed "s/^/      [$n $C] /"; fi
  done
  if [ -z "$bad" ]; then echo "SILENT  $n  tests=[$T]"; else echo "ALARM   $n  tests=[$T] :$bad"; fail=1; fi
  rm -rf "$D"
done
exit $fail
